//! Crash / hang guard for C07 (panic-freedom includes "no abort, no hang"): the worker process
//! records the tapes of the case each shard is running in a lock-free slot; a signal handler
//! (SIGSEGV on the alternate stack, SIGABRT, SIGBUS, SIGILL) dumps the crashing thread's slot and
//! exits with code 86; a watchdog thread dumps a slot that has been busy for too long and exits
//! with 87. The supervising parent process turns the dump into a replay file.

use std::cell::{Cell, UnsafeCell};
use std::sync::atomic::{AtomicU64, AtomicUsize, Ordering};

pub const EXIT_CRASH: i32 = 86;
pub const EXIT_HANG: i32 = 87;
const SLOT_BYTES: usize = 8192;
const NSLOTS: usize = 64;

struct Slot {
    seq: AtomicU64,
    len: AtomicUsize,
    started_ms: AtomicU64, // 0 = idle
    buf: UnsafeCell<[u8; SLOT_BYTES]>,
    path_crash: UnsafeCell<[u8; 256]>,
    path_hang: UnsafeCell<[u8; 256]>,
}
unsafe impl Sync for Slot {}

#[allow(clippy::declare_interior_mutable_const)]
const EMPTY: Slot = Slot {
    seq: AtomicU64::new(0),
    len: AtomicUsize::new(0),
    started_ms: AtomicU64::new(0),
    buf: UnsafeCell::new([0; SLOT_BYTES]),
    path_crash: UnsafeCell::new([0; 256]),
    path_hang: UnsafeCell::new([0; 256]),
};
static SLOTS: [Slot; NSLOTS] = [EMPTY; NSLOTS];
pub static EVALS: AtomicU64 = AtomicU64::new(0);
pub static NONTRIVIAL: AtomicU64 = AtomicU64::new(0);
static NEXT_SLOT: AtomicUsize = AtomicUsize::new(0);
static ENABLED: AtomicUsize = AtomicUsize::new(0);

thread_local! {
    static MY_SLOT: Cell<usize> = const { Cell::new(usize::MAX) };
}

fn now_ms() -> u64 {
    let mut ts = libc::timespec { tv_sec: 0, tv_nsec: 0 };
    unsafe { libc::clock_gettime(libc::CLOCK_MONOTONIC, &mut ts) };
    (ts.tv_sec as u64) * 1000 + (ts.tv_nsec as u64) / 1_000_000 + 1
}

pub fn enabled() -> bool {
    ENABLED.load(Ordering::Relaxed) != 0
}

fn my_slot() -> usize {
    MY_SLOT.with(|c| {
        if c.get() == usize::MAX {
            c.set(NEXT_SLOT.fetch_add(1, Ordering::Relaxed) % NSLOTS);
        }
        c.get()
    })
}

/// record the case this thread is about to run: three length-prefixed tapes
pub fn begin_case(a: &[u8], b: &[u8], c: &[u8], small: bool) {
    if !enabled() {
        return;
    }
    let s = &SLOTS[my_slot()];
    s.seq.fetch_add(1, Ordering::AcqRel);
    let buf = unsafe { &mut *s.buf.get() };
    let flag = [small as u8];
    let mut p = 0usize;
    for part in [a, b, c, &flag[..]] {
        let l = part.len().min((SLOT_BYTES - p).saturating_sub(4));
        if p + 4 > SLOT_BYTES {
            break;
        }
        buf[p..p + 4].copy_from_slice(&(l as u32).to_le_bytes());
        p += 4;
        buf[p..p + l].copy_from_slice(&part[..l]);
        p += l;
    }
    s.len.store(p, Ordering::Release);
    s.started_ms.store(now_ms(), Ordering::Release);
    s.seq.fetch_add(1, Ordering::AcqRel);
}

pub fn end_case() {
    if !enabled() {
        return;
    }
    SLOTS[my_slot()].started_ms.store(0, Ordering::Release);
}

unsafe fn dump(slot: usize, hang: bool) {
    let s = &SLOTS[slot];
    let path = if hang { s.path_hang.get() } else { s.path_crash.get() } as *const libc::c_char;
    let fd = libc::open(path, libc::O_CREAT | libc::O_WRONLY | libc::O_TRUNC, 0o644);
    if fd < 0 {
        return;
    }
    let e = EVALS.load(Ordering::Relaxed).to_le_bytes();
    let n = NONTRIVIAL.load(Ordering::Relaxed).to_le_bytes();
    libc::write(fd, e.as_ptr() as *const libc::c_void, 8);
    libc::write(fd, n.as_ptr() as *const libc::c_void, 8);
    let len = s.len.load(Ordering::Acquire).min(SLOT_BYTES);
    libc::write(fd, (*s.buf.get()).as_ptr() as *const libc::c_void, len);
    libc::close(fd);
}

static DUMPING: AtomicUsize = AtomicUsize::new(0);

extern "C" fn on_signal(_sig: libc::c_int) {
    unsafe {
        // only the first crashing thread dumps and exits; later ones wait for the exit
        if DUMPING.swap(1, Ordering::SeqCst) != 0 {
            loop {
                libc::pause();
            }
        }
        let slot = MY_SLOT.with(|c| c.get());
        if slot != usize::MAX {
            dump(slot, false);
        }
        libc::_exit(EXIT_CRASH);
    }
}

/// cap the address space of this process (soft limit only, so children can lift it again): a case that
/// makes the code under test allocate without bound ends in an allocation failure (abort) of this worker
/// instead of taking the machine down
pub fn limit_memory(gib: u64) {
    unsafe {
        let mut rl: libc::rlimit = std::mem::zeroed();
        if libc::getrlimit(libc::RLIMIT_AS, &mut rl) == 0 {
            rl.rlim_cur = (gib << 30) as libc::rlim_t;
            if rl.rlim_max != libc::RLIM_INFINITY && rl.rlim_cur > rl.rlim_max {
                rl.rlim_cur = rl.rlim_max;
            }
            libc::setrlimit(libc::RLIMIT_AS, &rl);
        }
    }
}

/// undo limit_memory in a child process (ASan-instrumented fuzz targets reserve terabytes of address space)
pub fn unlimit_memory() {
    unsafe {
        let mut rl: libc::rlimit = std::mem::zeroed();
        if libc::getrlimit(libc::RLIMIT_AS, &mut rl) == 0 {
            rl.rlim_cur = rl.rlim_max;
            libc::setrlimit(libc::RLIMIT_AS, &rl);
        }
    }
}

/// install handlers and the watchdog; `dir` receives crash-<slot>.bin / hang-<slot>.bin
pub fn install(dir: &std::path::Path, hang_secs: u64) {
    let _ = std::fs::create_dir_all(dir);
    for (i, s) in SLOTS.iter().enumerate() {
        for (hang, cell) in [(false, &s.path_crash), (true, &s.path_hang)] {
            let p = dir.join(format!("{}-{}.bin", if hang { "hang" } else { "crash" }, i));
            let bytes = p.to_string_lossy().into_owned().into_bytes();
            let dst = unsafe { &mut *cell.get() };
            let l = bytes.len().min(255);
            dst[..l].copy_from_slice(&bytes[..l]);
            dst[l] = 0;
            let _ = std::fs::remove_file(&p);
        }
    }
    unsafe {
        for sig in [libc::SIGSEGV, libc::SIGABRT, libc::SIGBUS, libc::SIGILL] {
            let mut sa: libc::sigaction = std::mem::zeroed();
            sa.sa_sigaction = on_signal as *const () as usize;
            sa.sa_flags = libc::SA_ONSTACK | libc::SA_NODEFER;
            libc::sigemptyset(&mut sa.sa_mask);
            libc::sigaction(sig, &sa, std::ptr::null_mut());
        }
    }
    ENABLED.store(1, Ordering::SeqCst);
    std::thread::Builder::new()
        .name("watchdog".into())
        .spawn(move || loop {
            std::thread::sleep(std::time::Duration::from_millis(500));
            let now = now_ms();
            for (i, s) in SLOTS.iter().enumerate() {
                let st = s.started_ms.load(Ordering::Acquire);
                if st != 0 && now.saturating_sub(st) > hang_secs * 1000 {
                    let seq = s.seq.load(Ordering::Acquire);
                    if seq % 2 == 0 && s.started_ms.load(Ordering::Acquire) == st {
                        unsafe {
                            if DUMPING.swap(1, Ordering::SeqCst) == 0 {
                                dump(i, true);
                                libc::_exit(EXIT_HANG);
                            }
                        }
                    }
                }
            }
        })
        .expect("watchdog");
}

/// parse a dump file: (evaluations, nontrivial, tapes a, b, c, small)
pub fn read_dump(path: &std::path::Path) -> Option<(u64, u64, Vec<u8>, Vec<u8>, Vec<u8>, bool)> {
    let d = std::fs::read(path).ok()?;
    if d.len() < 16 {
        return None;
    }
    let e = u64::from_le_bytes(d[0..8].try_into().ok()?);
    let n = u64::from_le_bytes(d[8..16].try_into().ok()?);
    let mut p = 16;
    let mut parts = Vec::new();
    for _ in 0..4 {
        if p + 4 > d.len() {
            parts.push(Vec::new());
            continue;
        }
        let l = u32::from_le_bytes(d[p..p + 4].try_into().ok()?) as usize;
        p += 4;
        let end = (p + l).min(d.len());
        parts.push(d[p..end].to_vec());
        p = end;
    }
    let small = parts.pop()?.first().copied().unwrap_or(0) != 0;
    let c = parts.pop()?;
    let b = parts.pop()?;
    let a = parts.pop()?;
    Some((e, n, a, b, c, small))
}
