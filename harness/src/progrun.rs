//! Compile-and-run machinery for C02/C13: generated struct definitions are written to files
//! *unchanged*, compiled by one direct rustc call per batch against prebuilt rlibs, executed against
//! their own source documents, and the printed value trees are parsed back.

use crate::model::{attr_bound_local, local_of};
use crate::runner::verif_root;
use crate::xmlser::VNode;
use serde_json::Value;
use std::path::{Path, PathBuf};

pub const HEADER: &str = "use serde::{Deserialize, Serialize};\n\n";
const VT_SRC: &str = include_str!("../progsrc/vt.rs");

#[derive(Clone, Copy, Debug, PartialEq)]
pub enum Deser {
    QuickXml,
    SerdeXmlRs,
}

#[derive(Clone, Debug)]
pub struct ProgCase {
    /// header + rendering, exactly as the CLI would emit it
    pub source: String,
    pub root: String,
    pub docs: Vec<String>,
    pub with_strict: bool,
}

#[derive(Clone, Debug)]
pub enum DocResult {
    Ok(Value),
    Err(String),
    Missing,
}

#[derive(Clone, Debug)]
pub enum CaseResult {
    CompileError(String),
    /// per document: (plain, strict)
    Ran(Vec<(DocResult, Option<DocResult>)>),
}

pub fn deps_dir() -> PathBuf {
    verif_root().join("target/progdeps/debug/deps")
}

fn find_rlib(prefix: &str) -> Result<PathBuf, String> {
    let d = deps_dir();
    let mut v: Vec<PathBuf> = std::fs::read_dir(&d)
        .map_err(|e| format!("INFRA {}: {} (run ./setup.sh)", d.display(), e))?
        .filter_map(|e| e.ok())
        .map(|e| e.path())
        .filter(|p| p.file_name().map(|n| { let n = n.to_string_lossy(); n.starts_with(prefix) && n.ends_with(".rlib") }).unwrap_or(false))
        .collect();
    v.sort();
    v.into_iter().next().ok_or_else(|| format!("INFRA no {}*.rlib in {}", prefix, d.display()))
}

pub fn strict_variant(source: &str) -> String {
    let mut out = String::new();
    for l in source.split_inclusive('\n') {
        if l.starts_with("pub struct ") {
            out.push_str("#[serde(deny_unknown_fields)]\n");
        }
        out.push_str(l);
    }
    out
}

fn write_batch(dir: &Path, cases: &[(usize, &ProgCase)], deser: Deser) -> Result<(), String> {
    std::fs::create_dir_all(dir).map_err(|e| format!("INFRA mkdir: {}", e))?;
    std::fs::write(dir.join("vt.rs"), VT_SRC).map_err(|e| format!("INFRA: {}", e))?;
    let mut main = String::from("#![allow(warnings)]\nmod vt;\n");
    for (id, c) in cases {
        std::fs::write(dir.join(format!("case_{}_plain.rs", id)), &c.source).map_err(|e| format!("INFRA: {}", e))?;
        main.push_str(&format!("#[path = \"case_{}_plain.rs\"] mod case_{}_plain;\n", id, id));
        if c.with_strict {
            std::fs::write(dir.join(format!("case_{}_strict.rs", id)), strict_variant(&c.source)).map_err(|e| format!("INFRA: {}", e))?;
            main.push_str(&format!("#[path = \"case_{}_strict.rs\"] mod case_{}_strict;\n", id, id));
        }
        for (i, d) in c.docs.iter().enumerate() {
            std::fs::write(dir.join(format!("case_{}_doc_{}.xml", id, i)), d).map_err(|e| format!("INFRA: {}", e))?;
        }
    }
    let de = match deser {
        Deser::QuickXml => "quick_xml::de::from_str",
        Deser::SerdeXmlRs => "serde_xml_rs::from_str",
    };
    main.push_str("fn one(line: &str) -> String { line.replace('\\n', \"\\\\n\").replace('\\r', \"\\\\r\") }\n");
    main.push_str("fn main() {\n    use std::io::Write;\n    let so = std::io::stdout();\n    let mut so = so.lock();\n");
    for (id, c) in cases {
        for (i, _) in c.docs.iter().enumerate() {
            let mut variants = vec!["plain"];
            if c.with_strict {
                variants.push("strict");
            }
            for var in variants {
                main.push_str(&format!(
                    "    match {de}::<case_{id}_{var}::{root}>(include_str!(\"case_{id}_doc_{i}.xml\")) {{ Ok(v) => writeln!(so, \"R {id} {i} {var} OK {{}}\", one(&vt::to_string(&v))).unwrap(), Err(e) => writeln!(so, \"R {id} {i} {var} ERR {{}}\", one(&e.to_string())).unwrap() }}\n",
                    de = de, id = id, var = var, root = c.root, i = i
                ));
            }
        }
    }
    main.push_str("}\n");
    std::fs::write(dir.join("main.rs"), main).map_err(|e| format!("INFRA: {}", e))?;
    Ok(())
}

/// returns (global error, per-case compile errors)
fn compile(dir: &Path) -> Result<Vec<(usize, String)>, String> {
    let out = std::process::Command::new("rustc")
        .current_dir(dir)
        .args(["--edition", "2021", "-C", "debuginfo=0", "-C", "opt-level=0", "--error-format=json", "--cap-lints", "allow", "main.rs", "-o", "prog"])
        .arg("-L")
        .arg(format!("dependency={}", deps_dir().display()))
        .arg("--extern")
        .arg(format!("serde={}", find_rlib("libserde-")?.display()))
        .arg("--extern")
        .arg(format!("quick_xml={}", find_rlib("libquick_xml-")?.display()))
        .arg("--extern")
        .arg(format!("serde_xml_rs={}", find_rlib("libserde_xml_rs-")?.display()))
        .output()
        .map_err(|e| format!("INFRA cannot run rustc: {}", e))?;
    if out.status.success() {
        return Ok(vec![]);
    }
    let mut per_case: Vec<(usize, String)> = Vec::new();
    let mut global = String::new();
    for line in String::from_utf8_lossy(&out.stderr).lines() {
        let v: Value = match serde_json::from_str(line) {
            Ok(v) => v,
            Err(_) => {
                global.push_str(line);
                global.push('\n');
                continue;
            }
        };
        if v["level"] != "error" {
            continue;
        }
        let rendered = v["rendered"].as_str().unwrap_or("").to_string();
        let mut ids: Vec<usize> = Vec::new();
        fn collect(sp: &Value, ids: &mut Vec<usize>) {
            if let Some(f) = sp["file_name"].as_str() {
                if let Some(rest) = f.rsplit('/').next().and_then(|n| n.strip_prefix("case_")) {
                    if let Some(n) = rest.split('_').next().and_then(|n| n.parse::<usize>().ok()) {
                        if !ids.contains(&n) {
                            ids.push(n);
                        }
                    }
                }
            }
            if !sp["expansion"].is_null() {
                collect(&sp["expansion"]["span"], ids);
            }
        }
        if let Some(spans) = v["spans"].as_array() {
            for sp in spans {
                collect(sp, &mut ids);
            }
        }
        if let Some(children) = v["children"].as_array() {
            for ch in children {
                if let Some(spans) = ch["spans"].as_array() {
                    for sp in spans {
                        collect(sp, &mut ids);
                    }
                }
            }
        }
        if ids.is_empty() {
            if !rendered.contains("aborting due to") {
                global.push_str(&rendered);
            }
        } else {
            for id in ids {
                match per_case.iter_mut().find(|(i, _)| *i == id) {
                    Some((_, m)) => {
                        if m.len() < 4000 {
                            m.push_str(&rendered)
                        }
                    }
                    None => per_case.push((id, rendered.clone())),
                }
            }
        }
    }
    if per_case.is_empty() {
        return Err(format!("INFRA rustc failed without a case-specific error: {}", if global.is_empty() { String::from_utf8_lossy(&out.stderr).to_string() } else { global }));
    }
    Ok(per_case)
}

/// compile and run a batch; compile errors are attributed to cases, those are dropped and the rest recompiled
pub fn run_batch(dir: &Path, cases: &[ProgCase], deser: Deser) -> Result<Vec<CaseResult>, String> {
    let mut results: Vec<Option<CaseResult>> = vec![None; cases.len()];
    let mut live: Vec<usize> = (0..cases.len()).collect();
    for _round in 0..6 {
        if live.is_empty() {
            break;
        }
        let _ = std::fs::remove_dir_all(dir);
        let sel: Vec<(usize, &ProgCase)> = live.iter().map(|i| (*i, &cases[*i])).collect();
        write_batch(dir, &sel, deser)?;
        let errs = compile(dir)?;
        if errs.is_empty() {
            let out = std::process::Command::new(dir.join("prog")).current_dir(dir).output().map_err(|e| format!("INFRA cannot run program: {}", e))?;
            let text = String::from_utf8_lossy(&out.stdout).to_string();
            let mut table: Vec<Vec<(DocResult, Option<DocResult>)>> =
                cases.iter().map(|c| c.docs.iter().map(|_| (DocResult::Missing, if c.with_strict { Some(DocResult::Missing) } else { None })).collect()).collect();
            for line in text.lines() {
                let mut it = line.splitn(6, ' ');
                if it.next() != Some("R") {
                    continue;
                }
                let id: usize = it.next().and_then(|x| x.parse().ok()).unwrap_or(usize::MAX);
                let di: usize = it.next().and_then(|x| x.parse().ok()).unwrap_or(usize::MAX);
                let var = it.next().unwrap_or("");
                let st = it.next().unwrap_or("");
                let rest = it.next().unwrap_or("");
                let r = if st == "OK" {
                    match serde_json::from_str::<Value>(rest) {
                        Ok(v) => DocResult::Ok(v),
                        Err(e) => DocResult::Err(format!("value tree unparsable: {}", e)),
                    }
                } else {
                    DocResult::Err(rest.to_string())
                };
                if let Some(row) = table.get_mut(id).and_then(|t| t.get_mut(di)) {
                    if var == "plain" {
                        row.0 = r;
                    } else {
                        row.1 = Some(r);
                    }
                }
            }
            for i in &live {
                results[*i] = Some(CaseResult::Ran(std::mem::take(&mut table[*i])));
            }
            live.clear();
            break;
        }
        for (id, msg) in errs {
            if let Some(slot) = results.get_mut(id) {
                *slot = Some(CaseResult::CompileError(msg));
            }
            live.retain(|x| *x != id);
        }
    }
    let _ = std::fs::remove_dir_all(dir);
    if !live.is_empty() {
        return Err("INFRA batch did not converge after 6 compile rounds".into());
    }
    Ok(results.into_iter().map(|r| r.expect("filled")).collect())
}

// ---------------------------------------------------------------------------------------
// comparison of a document with the deserialized value tree

#[derive(Clone, Debug, PartialEq)]
pub enum DiscKind {
    /// `$text` is None/absent where a struct-typed element has non-whitespace text
    StructTextMissing,
    LeafTextWrong,
    AttrWrong,
    ChildWrong,
    Unaccounted,
    Shape,
}

#[derive(Clone, Debug)]
pub struct Disc {
    pub kind: DiscKind,
    pub msg: String,
}

pub struct CmpStats {
    pub attr_values: u64,
    pub text_values: u64,
    pub whitespace_only_differences: u64,
}

fn strip_ws(s: &str) -> String {
    s.chars().filter(|c| !c.is_whitespace()).collect()
}

fn text_of(v: &VNode) -> String {
    v.chunks.iter().map(|c| c.value.as_str()).collect()
}

fn text_eq(expected: &str, got: &str, cs: &mut CmpStats) -> bool {
    if expected.trim() == got.trim() {
        return true;
    }
    if strip_ws(expected) == strip_ws(got) {
        cs.whitespace_only_differences += 1;
        return true;
    }
    false
}

pub fn compare(v: &VNode, val: &Value, attr_prefix: &str, text_key: &str, path: &str, out: &mut Vec<Disc>, cs: &mut CmpStats) {
    let here = format!("{}/{}", path, v.name);
    let fields = match val["f"].as_array() {
        Some(f) => f,
        None => {
            out.push(Disc { kind: DiscKind::Shape, msg: format!("{}: value is not a struct: {}", here, val) });
            return;
        }
    };
    let mut used = vec![false; fields.len()];
    let find = |key: &str, used: &mut Vec<bool>| -> Option<Value> {
        for (i, f) in fields.iter().enumerate() {
            if !used[i] && f[0].as_str() == Some(key) {
                used[i] = true;
                return Some(f[1].clone());
            }
        }
        None
    };
    for (name, logical) in &v.attrs {
        let key = format!("{}{}", attr_prefix, attr_bound_local(name));
        cs.attr_values += 1;
        match find(&key, &mut used) {
            Some(Value::String(s)) if s.trim() == logical.trim() => {}
            Some(other) => out.push(Disc { kind: DiscKind::AttrWrong, msg: format!("{}: attribute `{}` = {:?} in the document but field `{}` holds {}", here, name, logical, key, other) }),
            None => out.push(Disc { kind: DiscKind::AttrWrong, msg: format!("{}: attribute `{}` = {:?} has no field `{}` in the value", here, name, logical, key) }),
        }
    }
    let expected_text = text_of(v);
    let got_text = find(text_key, &mut used);
    if !expected_text.trim().is_empty() {
        cs.text_values += 1;
        match &got_text {
            Some(Value::String(s)) if text_eq(&expected_text, s, cs) => {}
            Some(Value::Null) | None => out.push(Disc { kind: DiscKind::StructTextMissing, msg: format!("{}: element has text {:?} but the text field is None/absent", here, expected_text.trim()) }),
            Some(other) => out.push(Disc { kind: DiscKind::LeafTextWrong, msg: format!("{}: element has text {:?} but the text field holds {}", here, expected_text.trim(), other) }),
        }
    } else if let Some(Value::String(s)) = &got_text {
        if !s.trim().is_empty() {
            out.push(Disc { kind: DiscKind::Unaccounted, msg: format!("{}: text field holds {:?} but the element has no text", here, s) });
        }
    }
    // children grouped by bound (local) name, document order inside a group
    let mut names: Vec<&str> = Vec::new();
    for c in &v.children {
        let l = local_of(&c.name);
        if !names.contains(&l) {
            names.push(l);
        }
    }
    for l in names {
        let occ: Vec<&VNode> = v.children.iter().filter(|c| local_of(&c.name) == l).collect();
        let val = find(l, &mut used);
        let items: Vec<Value> = match val {
            None | Some(Value::Null) => {
                out.push(Disc { kind: DiscKind::ChildWrong, msg: format!("{}: {} child element(s) `{}` in the document but the field is None/absent", here, occ.len(), l) });
                continue;
            }
            Some(v) => match v["q"].as_array() {
                Some(a) => a.clone(),
                None => vec![v],
            },
        };
        if items.len() != occ.len() {
            out.push(Disc { kind: DiscKind::ChildWrong, msg: format!("{}: {} child element(s) `{}` in the document but the value holds {}", here, occ.len(), l, items.len()) });
            continue;
        }
        for (o, item) in occ.iter().zip(items.iter()) {
            match item {
                Value::String(s) => {
                    if !o.attrs.is_empty() || !o.children.is_empty() {
                        out.push(Disc { kind: DiscKind::ChildWrong, msg: format!("{}/{}: element has attributes or children but was deserialized into a plain string", here, o.name) });
                    }
                    let e = text_of(o);
                    if !e.trim().is_empty() {
                        cs.text_values += 1;
                    }
                    if !text_eq(&e, s, cs) {
                        out.push(Disc { kind: DiscKind::LeafTextWrong, msg: format!("{}/{}: text {:?} in the document but the value holds {:?}", here, o.name, e.trim(), s) });
                    }
                }
                other => compare(o, other, attr_prefix, text_key, &here, out, cs),
            }
        }
    }
    for (i, f) in fields.iter().enumerate() {
        if used[i] {
            continue;
        }
        let empty = match &f[1] {
            Value::Null => true,
            Value::String(s) => s.trim().is_empty(),
            v => v["q"].as_array().map(|a| a.is_empty()).unwrap_or(false),
        };
        if !empty {
            out.push(Disc { kind: DiscKind::Unaccounted, msg: format!("{}: field `{}` holds {} but nothing in the document accounts for it", here, f[0], f[1]) });
        }
    }
}
