//! Entry points shared by the cargo-fuzz targets and by the replay of their artifacts.

use crate::props::c07::{run_history, MAX_DEPTH};
use crate::props::c08;
use crate::props::common::OptSpec;
use crate::runner::{Property, Stats, Tapes};
use crate::sut::{ReaderCfg, ReaderKind};
use crate::verdict::nesting_depth;

pub fn decode_bytes_input(data: &[u8]) -> (ReaderCfg, OptSpec, bool, &[u8]) {
    let b0 = data.first().copied().unwrap_or(0);
    let b1 = data.get(1).copied().unwrap_or(0);
    let kind = match b0 & 3 {
        0 | 1 => ReaderKind::Slice,
        2 => ReaderKind::Buf([1usize, 2, 3, 7, 64, 4096][((b0 >> 2) as usize) % 6]),
        _ => ReaderKind::Chunk([1usize, 2, 3, 7, 64, 4096][((b0 >> 2) as usize) % 6]),
    };
    let cfg = ReaderCfg { kind, expand_empty: b1 & 1 != 0, trim_text: b1 & 2 != 0, check_end_names: b1 & 4 == 0 };
    let opts = OptSpec {
        prefix: crate::props::common::PREFIXES[((b1 >> 3) as usize) % crate::props::common::PREFIXES.len()].to_string(),
        text_id: "$text".into(),
        derive: "Serialize, Deserialize".into(),
        by_name: b1 & 0x80 != 0,
    };
    // the third header byte selects whether the input is also given twice (parse, then extend)
    let twice = data.get(2).map(|b| b & 1 == 1).unwrap_or(false);
    let input = if data.len() > 3 { &data[3..] } else { &[] };
    (cfg, opts, twice, input)
}

pub fn bytes_target(data: &[u8]) -> Result<(), String> {
    let (cfg, opts, twice, input) = decode_bytes_input(data);
    if nesting_depth(input, cfg.expand_empty, cfg.check_end_names) > MAX_DEPTH || nesting_depth(input, false, true) > MAX_DEPTH {
        return Ok(());
    }
    let inputs: Vec<Vec<u8>> = if twice { vec![input.to_vec(), input.to_vec()] } else { vec![input.to_vec()] };
    run_history(&inputs, &cfg, &opts, None)?;
    // C08 oracle: default configuration only
    c08::check_default(input)
}

pub fn tape_target(data: &[u8]) -> Result<(), String> {
    // split the fuzz input into structure and surface tapes: first two bytes = length of the structure tape
    if data.len() < 2 {
        return Ok(());
    }
    let n = (((data[0] as usize) << 8) | data[1] as usize) % 1024;
    let rest = &data[2..];
    let n = n.min(rest.len());
    let (a, bc) = rest.split_at(n);
    let half = bc.len() / 2;
    let tapes = Tapes { a: a.to_vec(), b: bc[..half].to_vec(), c: bc[half..].to_vec(), small: false };
    let mut st = Stats::default();
    st.frozen = true;
    for p in [
        &crate::props::c03::C03 as &dyn Property,
        &crate::props::c01::C01,
        &crate::props::c09::C09,
        &crate::props::c11::C11,
    ] {
        if let Err(f) = p.check(&tapes, &mut st) {
            return Err(format!("{}: {}", p.id(), f.msg));
        }
    }
    Ok(())
}
