//! C06 — extending with further documents behaves like inferring from their union.

use super::common::*;
use crate::model::{attr_bound_local, local_of, Domain, Node};
use crate::refinf::{infer, normalized, SAttr, SChild, Schema};
use crate::rendered::RNode;
use crate::runner::{hash_of, Failure, Property, Stats, Tapes, Tier};
use crate::sut::{self, Element, Options, ReaderCfg};
use crate::tape::Tape;
use crate::verdict::{expected, Expect};
use crate::xmlser::SurfaceCfg;
use serde_json::{json, Value};

pub struct C06;

/// schema abstraction of a rendering: keyed by bound XML names, order-free, identifiers and struct names dropped
pub fn schema_of_rnode(r: &RNode, name: &str) -> Schema {
    let attrs = r.attrs.iter().map(|a| SAttr { name: a.bound.clone(), optional: a.optional }).collect();
    let children = r
        .children
        .iter()
        .map(|c| SChild {
            optional: c.optional,
            multiple: c.vec,
            schema: match &c.node {
                Some(n) => schema_of_rnode(n, &c.bound),
                None => Schema { name: c.bound.clone(), attrs: vec![], text: true, children: vec![], occurrences: 0 },
            },
        })
        .collect();
    normalized(&Schema { name: name.to_string(), attrs, text: r.text.is_some(), children, occurrences: 0 })
}

/// the reference schema expressed in bound names
pub fn bound_form(s: &Schema, is_root: bool) -> Schema {
    let attrs = s.attrs.iter().map(|a| SAttr { name: attr_bound_local(&a.name).to_string(), optional: a.optional }).collect();
    let children = s.children.iter().map(|c| SChild { optional: c.optional, multiple: c.multiple, schema: bound_form(&c.schema, false) }).collect();
    normalized(&Schema { name: if is_root { String::new() } else { local_of(&s.name).to_string() }, attrs, text: s.text, children, occurrences: 0 })
}

/// nothing may disappear or become stricter from `a` to `b`
fn monotone(a: &Schema, b: &Schema, path: &str) -> Result<(), String> {
    let here = format!("{}/{}", path, a.name);
    for x in &a.attrs {
        match b.attrs.iter().find(|y| y.name == x.name) {
            None => return Err(format!("{}: attribute field `{}` disappeared", here, x.name)),
            Some(y) => {
                if x.optional && !y.optional {
                    return Err(format!("{}: attribute field `{}` turned from Option into required", here, x.name));
                }
            }
        }
    }
    if a.text && !b.text {
        // a struct that had a text field lost it (or a String position became a text-less struct)
        return Err(format!("{}: text field (or String typing) was lost", here));
    }
    for x in &a.children {
        match b.children.iter().find(|y| y.schema.name == x.schema.name) {
            None => return Err(format!("{}: child field `{}` disappeared", here, x.schema.name)),
            Some(y) => {
                if x.optional && !y.optional {
                    return Err(format!("{}: child field `{}` turned from Option into required", here, x.schema.name));
                }
                if x.multiple && !y.multiple {
                    return Err(format!("{}: child field `{}` turned from Vec into single", here, x.schema.name));
                }
                monotone(&x.schema, &y.schema, &here)?;
            }
        }
    }
    Ok(())
}

#[derive(Clone, Debug)]
enum Step {
    Doc(usize),
    Neutral(usize),
}

const NEUTRALS: &[&str] = &["", " ", "\n\n", "<!-- only a comment -->", "<?xml version=\"1.0\"?>", "<?xml version=\"1.0\"?>\n<!--c-->\n", "<?pi?>", "<!DOCTYPE r>", "just text", "\u{feff}"];

struct History {
    steps: Vec<Step>,
    perm: Vec<usize>,
    malformed: Option<Vec<u8>>,
}

fn decode_history(t: &mut Tape, k: usize, bytes: &[Vec<u8>]) -> History {
    let mut steps = vec![Step::Doc(0)];
    for i in 1..k {
        if t.chance(50) {
            steps.push(Step::Neutral(t.choose(NEUTRALS.len())));
        }
        if t.chance(40) {
            // supply an earlier member again
            steps.push(Step::Doc(t.choose(i)));
        }
        steps.push(Step::Doc(i));
    }
    let tail = t.choose(4);
    for _ in 0..tail {
        if t.chance(128) {
            steps.push(Step::Doc(t.choose(k)));
        } else {
            steps.push(Step::Neutral(t.choose(NEUTRALS.len())));
        }
    }
    // a permutation of the members
    let mut rest: Vec<usize> = (0..k).collect();
    let mut perm = Vec::new();
    while !rest.is_empty() {
        let i = t.choose(rest.len());
        perm.push(rest.remove(i));
    }
    let malformed = if t.chance(90) {
        let src = &bytes[t.choose(k)];
        let mut m = src.clone();
        match t.choose(6) {
            0 => m.extend_from_slice(b"</zz>"),
            1 => {
                let cut = if m.is_empty() { 0 } else { 1 + t.choose(m.len().min(255)) * m.len() / m.len().min(255).max(1) };
                m.truncate(cut.min(m.len()));
            }
            2 => m.extend_from_slice(b"<a b=>"),
            3 => m.extend_from_slice(b"<a x='1' x='2'/>"),
            4 => {
                // break the last end tag
                if let Some(p) = m.iter().rposition(|b| *b == b'/') {
                    m.insert(p + 1, b'Q');
                }
            }
            _ => m.extend_from_slice(b"<\xff\xfe/>"),
        }
        Some(m)
    } else {
        None
    };
    History { steps, perm, malformed }
}

fn render_schema(root: &Element<String>) -> Result<(String, Schema), Failure> {
    let (src, _d, tree) = render_tree(root, &Options::quick_xml_de())?;
    Ok((src, schema_of_rnode(&tree, "")))
}

fn differs_below_root(a: &Schema, b: &Schema) -> bool {
    let ka: Vec<&Schema> = a.children.iter().map(|c| &c.schema).collect();
    let kb: Vec<&Schema> = b.children.iter().map(|c| &c.schema).collect();
    ka != kb
}

/// re-supply family: large documents (an element seen n times in total, n around counter widths) supplied, supplied
/// again, followed by an element-less input and a third supply; the schema must be the reference inference after the
/// first step and must not change afterwards
fn resupply_family(n: usize) -> Result<(), String> {
    for docs in super::smallscope::threshold_family(n).into_iter().filter(|d| d.len() == 1) {
        let bytes = crate::xmlser::canonical(&docs[0]).into_bytes();
        let reference = bound_form(&infer(&docs[0].name, &[&docs[0]]), true);
        let cfg = ReaderCfg::default_slice();
        let mut root: Option<Element<String>> = None;
        for (si, input) in [&bytes[..], &bytes[..], &b"<!-- nothing -->"[..], &bytes[..]].iter().enumerate() {
            let r = sut::parse_with(input, root.take(), &cfg).map_err(|e| format!("step {} was rejected: {}", si + 1, e))?;
            let (_src, got) = render_schema(&r).map_err(|f| f.msg)?;
            if got != reference {
                let head: String = String::from_utf8_lossy(&bytes).chars().take(120).collect();
                return Err(format!(
                    "after step {} of [D, D again, element-less input, D again] with D = {}... ({} bytes) the schema is not the one inferred from D: {}",
                    si + 1,
                    head,
                    bytes.len(),
                    compare_schema_norm(&reference, &got)
                ));
            }
            root = Some(r);
        }
    }
    Ok(())
}

fn big_keep(label: &str) -> bool {
    label.starts_with("chain of depth") || label.starts_with("n=") || label.starts_with("threshold")
}

/// documents in the given order, every document a second time, and in reverse: always the inference from their union
fn big_oracle(docs: &[&crate::model::Node], bytes: &[Vec<u8>]) -> Result<bool, String> {
    let n = docs.len();
    let orders: [(&str, Vec<usize>); 3] = [("as given", (0..n).collect()), ("every document twice", (0..n).chain(0..n).collect()), ("reversed", (0..n).rev().collect())];
    for (what, order) in orders {
        let d: Vec<&crate::model::Node> = order.iter().map(|i| docs[*i]).collect();
        let b: Vec<Vec<u8>> = order.iter().map(|i| bytes[*i].clone()).collect();
        crate::props::c03::small_oracle(&d, &b).map_err(|e| format!("documents supplied {}: {}", what, e))?;
    }
    Ok(true)
}

impl Property for C06 {
    fn id(&self) -> &'static str {
        "C06"
    }
    fn tape_sizes(&self) -> (usize, usize, usize) {
        (700, 400, 40)
    }
    fn cases(&self, tier: Tier) -> u64 {
        match tier {
            Tier::Quick => 40_000,
            Tier::Thorough => 3_000_000,
        }
    }
    fn check(&self, tapes: &Tapes, st: &mut Stats) -> Result<(), Failure> {
        let mut dom = Domain::general();
        dom.max_nodes = 25;
        let p = prepare(tapes, &dom, &SurfaceCfg::full());
        let k = p.case.docs.len();
        let mut tc = Tape::new(&tapes.c);
        let h = decode_history(&mut tc, k, &p.bytes);
        let cfg = ReaderCfg::default_slice();
        let describe = || {
            json!({
                "case": describe_case(&p),
                "steps": h.steps.iter().map(|s| match s { Step::Doc(i) => format!("document #{}", i + 1), Step::Neutral(n) => format!("element-less input {:?}", NEUTRALS[*n]) }).collect::<Vec<_>>(),
                "permutation": h.perm.iter().map(|i| i + 1).collect::<Vec<_>>(),
                "malformed_tail": h.malformed.as_ref().map(|m| String::from_utf8_lossy(m).to_string()),
            })
        };
        st.count(&format!("docs.k={}", k));
        st.add("steps", h.steps.len() as u64);
        st.sample(describe);

        // history 1: members in order, with repetitions and element-less inputs; laws after every step
        let mut root: Option<Element<String>> = None;
        let mut supplied: Vec<&Node> = Vec::new();
        let mut prev: Option<Schema> = None;
        for (si, step) in h.steps.iter().enumerate() {
            let (bytes, what): (&[u8], String) = match step {
                Step::Doc(i) => {
                    supplied.push(&p.case.docs[*i]);
                    (&p.bytes[*i], format!("document #{}", i + 1))
                }
                Step::Neutral(n) => {
                    st.count("element_less_inputs");
                    (NEUTRALS[*n].as_bytes(), format!("element-less input {:?}", NEUTRALS[*n]))
                }
            };
            if let Step::Doc(i) = step {
                if supplied.iter().filter(|d| std::ptr::eq(**d, &p.case.docs[*i])).count() > 1 {
                    st.count("member_supplied_again");
                }
            }
            let r = sut::parse_with(bytes, root.take(), &cfg)
                .map_err(|e| Failure::new(format!("step {} ({}) was rejected: {}", si + 1, what, e)).with_detail(describe()))?;
            let (src, got) = render_schema(&r)?;
            let reference = bound_form(&infer(&supplied[0].name, &supplied), true);
            if got != reference {
                let why = compare_schema_norm(&reference, &got);
                return Err(Failure::new(format!("after step {} ({}) the schema is not the one inferred from the union of the supplied documents: {}", si + 1, what, why))
                    .with_detail(json!({"history": describe(), "rendered": src, "reference": reference})));
            }
            if let Some(pv) = &prev {
                monotone(pv, &got, "").map_err(|e| Failure::new(format!("step {} ({}) is not monotone: {}", si + 1, what, e)).with_detail(json!({"history": describe(), "rendered": src})))?;
            }
            prev = Some(got);
            root = Some(r);
        }
        let final1 = prev.unwrap();
        let root1 = root.unwrap();
        let first_only = bound_form(&infer(&p.case.docs[0].name, &[&p.case.docs[0]]), true);
        if k >= 2 && differs_below_root(&first_only, &final1) {
            st.nontrivial(hash_of(&(&p.case.docs, &h.perm)));
            st.count("later_documents_change_nested_schema");
        }

        // sibling names that differ only in their namespace prefix (link / atom:link) are outside C01's domain but
        // inside this statement's: judged on the returned Element tree, where full XML names are kept
        {
            let mut dom2 = Domain::general();
            dom2.no_prefix_clash = false;
            dom2.max_nodes = 20;
            dom2.elem_classes = vec![("plain", 6), ("prefixed", 6), ("multicolon", 1), ("case", 1)];
            dom2.attr_classes = vec![("plain", 6), ("prefixed", 6)];
            let p2 = prepare(tapes, &dom2, &SurfaceCfg::plain());
            let clash = |n: &Node| -> bool {
                fn go(n: &Node) -> bool {
                    let names: Vec<&str> = n.children().map(|c| c.name.as_str()).collect();
                    let mut hit = false;
                    for (i, a) in names.iter().enumerate() {
                        for b in names.iter().skip(i + 1) {
                            if a != b && local_of(a) == local_of(b) {
                                hit = true;
                            }
                        }
                    }
                    hit || n.children().any(go)
                }
                go(n)
            };
            if p2.case.docs.iter().any(clash) {
                st.count("histories_with_names_differing_only_in_prefix");
            }
            let reference = crate::refinf::infer_docs(&p2.case.docs);
            let orders: Vec<Vec<usize>> = {
                let k2 = p2.bytes.len();
                let fwd: Vec<usize> = (0..k2).collect();
                let mut rev = fwd.clone();
                rev.reverse();
                let mut again = fwd.clone();
                again.push(0);
                vec![fwd, rev, again]
            };
            for ord in orders {
                let seq: Vec<Vec<u8>> = ord.iter().map(|i| p2.bytes[*i].clone()).collect();
                let r = sut::parse_seq(&seq).map_err(|(i, e)| Failure::new(format!("prefix-clash history: document #{} rejected: {}", ord[i] + 1, e)).with_detail(describe_case(&p2)))?;
                compare_element(&reference, &r, "").map_err(|e| {
                    Failure::new(format!("documents supplied in the order {:?}: the returned element tree is not the one inferred from the union: {}", ord.iter().map(|i| i + 1).collect::<Vec<_>>(), e))
                        .with_detail(describe_case(&p2))
                })?;
            }
        }

        // history 2: a permutation of the members
        if k >= 2 {
            let docs2: Vec<Vec<u8>> = h.perm.iter().map(|i| p.bytes[*i].clone()).collect();
            let r2 = sut::parse_seq(&docs2).map_err(|(i, e)| Failure::new(format!("permuted history: document #{} rejected: {}", h.perm[i] + 1, e)).with_detail(describe()))?;
            let (src2, got2) = render_schema(&r2)?;
            if got2 != final1 {
                return Err(Failure::new(format!("supplying the documents in the order {:?} gives a different schema: {}", h.perm.iter().map(|i| i + 1).collect::<Vec<_>>(), compare_schema_norm(&final1, &got2)))
                    .with_detail(json!({"history": describe(), "rendered_permuted": src2, "rendered_in_order": root1.to_serde_struct(&Options::quick_xml_de())})));
            }
            if h.perm.iter().enumerate().any(|(i, x)| i != *x) {
                st.count("true_permutations");
            }
        }

        // failed extension reports an error rather than a partial result
        if let Some(m) = &h.malformed {
            let (exp, _) = expected(m);
            let before = root1.to_serde_struct(&Options::quick_xml_de());
            let keep = root1.clone();
            let res = sut::parse_with(m, Some(root1), &cfg);
            match (&exp, res) {
                (Expect::Clean { .. }, Ok(r)) => {
                    st.count("damaged_tail_still_acceptable");
                    let (src, got) = render_schema(&r)?;
                    monotone(&final1, &got, "").map_err(|e| Failure::new(format!("extension by a damaged but acceptable document is not monotone: {}", e)).with_detail(json!({"history": describe(), "rendered": src})))?;
                }
                (Expect::Clean { .. }, Err(e)) => {
                    return Err(Failure::new(format!("extension failed ({}) although the input has no error condition", e)).with_detail(describe()));
                }
                (_, Ok(r)) => {
                    return Err(Failure::new(format!("extension with a malformed document (expected {}) returned Ok instead of an error", exp.class()))
                        .with_detail(json!({"history": describe(), "rendered": r.to_serde_struct(&Options::quick_xml_de())})));
                }
                (_, Err(_)) => {
                    st.count("failed_extension_reported");
                    if keep.to_serde_struct(&Options::quick_xml_de()) != before {
                        return Err(Failure::new("a clone taken before the failed extension renders differently afterwards").with_detail(describe()));
                    }
                }
            }
        }
        Ok(())
    }
    fn extra(&self, tier: Tier, _seed: u64, st: &mut Stats) -> Result<(), (Failure, Value)> {
        let ns: &[usize] = match tier {
            Tier::Quick => &[1, 2, 3, 255, 256, 257, 65535, 65536, 65537],
            Tier::Thorough => &[1, 2, 3, 127, 128, 129, 255, 256, 257, 1023, 1024, 1025, 32767, 32768, 32769, 65535, 65536, 65537, 131073],
        };
        for n in ns {
            st.evaluations += 6;
            st.add("resupply_family.histories", 6);
            if let Err(e) = resupply_family(*n) {
                return Err((Failure::new(format!("re-supply family n={}: {}", n, e)), json!({"resupply_n": n})));
            }
        }
        // the enumerated families around plausible limits (deep chains, wide elements), each in three orders
        {
            let (n, fail) = super::smallscope::run_big_families_where(big_keep, big_oracle);
            st.evaluations += 3 * n;
            st.nontrivial_enumerated += 3 * n;
            st.add("big_families", n);
            if let Some((label, e, docs)) = fail {
                let first = e.lines().next().unwrap_or("").to_string();
                return Err((Failure::new(format!("family `{}`: {}", label, first)).with_detail(json!({"documents": docs, "message": e})), json!({"big_family": label})));
            }
        }
        Ok(())
    }
    fn replay_custom(&self, payload: &Value) -> Result<(), Failure> {
        if let Some(l) = payload["big_family"].as_str() {
            return super::smallscope::replay_big_family(l, big_oracle).map_err(Failure::new);
        }
        match payload["resupply_n"].as_u64() {
            Some(n) => resupply_family(n as usize).map_err(|e| Failure::new(format!("re-supply family n={}: {}", n, e))),
            None => Err(Failure::new("unknown replay payload")),
        }
    }
    fn rule(&self) -> String {
        "tape-decoded histories parse(D1), extend(...) over 1..5 generated documents with members supplied again, element-less inputs interleaved (empty, blanks, comment-only, declaration-only, text-only), a random permutation of the members, and (one history in three) a damaged member at the end. After every step the schema abstraction of the rendering (fields, optionality, multiplicity, text flags, nesting; order/identifiers/struct names ignored) must equal the reference inference over the union of the documents supplied so far and be monotone w.r.t. the previous step; the permuted history must end in the same schema; a tail on which an independent reader pass finds an error must yield Err. A second, tree-level part uses pools in which sibling names may differ only in their namespace prefix (link / atom:link): forward, reversed and first-document-again orders must return the element tree inferred from the union (full XML names, optionality, multiplicity, text). The enumerated families of deep chains and wide elements (sizes around 16..300) are supplied as given, with every document a second time, and reversed. A re-supply family adds large single documents (an element seen n times in total, n around 256 and 65536; thorough also 128, 1024, 32768, 131073) supplied, supplied again, followed by an element-less input and a third supply. Non-trivial = k >= 2 and the later documents change the schema below the root; distinct by hash of documents and permutation.".into()
    }
    fn assumptions(&self) -> Vec<String> {
        vec![
            "domain as C01/C03 (no names clashing after prefix removal)".into(),
            "the expected verdict for the damaged tail comes from an independent pass over the default reader's events (see C08)".into(),
        ]
    }
    fn describe(&self, tapes: &Tapes) -> Value {
        let mut dom = Domain::general();
        dom.max_nodes = 25;
        describe_case(&prepare(tapes, &dom, &SurfaceCfg::full()))
    }
    fn health(&self, _tier: Tier) -> Vec<(&'static str, u64)> {
        vec![("nontrivial", 3000), ("true_permutations", 3000), ("member_supplied_again", 3000), ("element_less_inputs", 3000), ("failed_extension_reported", 1000), ("histories_with_names_differing_only_in_prefix", 1000)]
    }
}

/// first difference between two normalized schemas, in words
pub fn compare_schema_norm(a: &Schema, b: &Schema) -> String {
    fn go(a: &Schema, b: &Schema, path: &str) -> Option<String> {
        let here = format!("{}/{}", path, a.name);
        if a.attrs != b.attrs {
            return Some(format!("{}: attributes {:?} vs {:?}", here, a.attrs.iter().map(|x| format!("{}{}", x.name, if x.optional { "?" } else { "" })).collect::<Vec<_>>(), b.attrs.iter().map(|x| format!("{}{}", x.name, if x.optional { "?" } else { "" })).collect::<Vec<_>>()));
        }
        if a.text != b.text {
            return Some(format!("{}: text {} vs {}", here, a.text, b.text));
        }
        let f = |s: &Schema| s.children.iter().map(|c| format!("{}{}{}", c.schema.name, if c.optional { "?" } else { "" }, if c.multiple { "*" } else { "" })).collect::<Vec<_>>();
        if f(a) != f(b) {
            return Some(format!("{}: children {:?} vs {:?}", here, f(a), f(b)));
        }
        for (x, y) in a.children.iter().zip(b.children.iter()) {
            if let Some(d) = go(&x.schema, &y.schema, &here) {
                return Some(d);
            }
        }
        None
    }
    go(a, b, "").unwrap_or_else(|| "no difference found".into())
}
