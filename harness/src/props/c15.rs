//! C15 — public list merge: union, conjunction of necessity, stable order.

use crate::runner::{hash_of, Failure, Property, Stats, Tapes, Tier};
use crate::sut::{merge_necessity, Necessity};
use crate::tape::Tape;
use serde_json::{json, Value};

pub struct C15;

type L<T> = Vec<(bool, T)>; // (mandatory, payload)

fn to_nec<T: Clone>(l: &L<T>) -> Vec<Necessity<T>> {
    l.iter().map(|(m, p)| if *m { Necessity::Mandatory(p.clone()) } else { Necessity::Optional(p.clone()) }).collect()
}
fn from_nec<T: Clone>(l: &[Necessity<T>]) -> L<T> {
    l.iter()
        .map(|n| match n {
            Necessity::Mandatory(p) => (true, p.clone()),
            Necessity::Optional(p) => (false, p.clone()),
        })
        .collect()
}

/// direct specification, clause by clause
fn spec<T: PartialEq + Clone + std::fmt::Debug>(a: &L<T>, b: &L<T>, r: &L<T>) -> Result<(), String> {
    // exactly once
    for (i, (_, x)) in r.iter().enumerate() {
        if r.iter().skip(i + 1).any(|(_, y)| x == y) {
            return Err(format!("item {:?} appears more than once in the result", x));
        }
    }
    // union
    for (_, x) in a.iter().chain(b.iter()) {
        if !r.iter().any(|(_, y)| x == y) {
            return Err(format!("item {:?} of an input list is missing from the result", x));
        }
    }
    for (_, y) in r.iter() {
        if !a.iter().chain(b.iter()).any(|(_, x)| x == y) {
            return Err(format!("item {:?} of the result is in neither input", y));
        }
    }
    // mandatory iff mandatory in both
    for (m, y) in r.iter() {
        let in_a = a.iter().find(|(_, x)| x == y).map(|(m, _)| *m);
        let in_b = b.iter().find(|(_, x)| x == y).map(|(m, _)| *m);
        let expect = in_a == Some(true) && in_b == Some(true);
        if *m != expect {
            return Err(format!("item {:?}: mandatory={} but first list {:?}, second list {:?}", y, m, in_a, in_b));
        }
    }
    // order: first list in order, then second-only items in their original relative order
    let expect_order: Vec<&T> =
        a.iter().map(|(_, x)| x).chain(b.iter().filter(|(_, x)| !a.iter().any(|(_, y)| x == y)).map(|(_, x)| x)).collect();
    let got_order: Vec<&T> = r.iter().map(|(_, x)| x).collect();
    if expect_order != got_order {
        return Err(format!("order: expected {:?}, got {:?}", expect_order, got_order));
    }
    Ok(())
}

fn nontrivial<T: PartialEq>(a: &L<T>, b: &L<T>) -> bool {
    let second_only = b.iter().filter(|(_, x)| !a.iter().any(|(_, y)| x == y)).count();
    let differing = a.iter().any(|(m, x)| b.iter().any(|(m2, y)| x == y && m != m2));
    second_only >= 2 || differing
}

fn check_pair<T: PartialEq + Clone + std::fmt::Debug>(a: &L<T>, b: &L<T>) -> Result<(), Failure> {
    let r = merge_necessity(to_nec(a), to_nec(b));
    let r = from_nec(&r);
    spec(a, b, &r).map_err(|e| {
        Failure::new(format!("merge_necessity({:?}, {:?}) = {:?}: {}", a, b, r, e))
            .with_detail(json!({"first": format!("{:?}", a), "second": format!("{:?}", b), "result": format!("{:?}", r)}))
    })
}

/// all duplicate-free ordered tagged lists over 0..n
fn all_lists(n: u8) -> Vec<L<u8>> {
    fn go(n: u8, cur: &mut L<u8>, out: &mut Vec<L<u8>>) {
        out.push(cur.clone());
        for x in 0..n {
            if cur.iter().any(|(_, y)| *y == x) {
                continue;
            }
            for m in [false, true] {
                cur.push((m, x));
                go(n, cur, out);
                cur.pop();
            }
        }
    }
    let mut out = Vec::new();
    go(n, &mut Vec::new(), &mut out);
    out
}

fn decode_list(t: &mut Tape, alphabet: usize) -> L<u8> {
    let len = t.choose(alphabet + 1);
    let mut remaining: Vec<u8> = (0..alphabet as u8).collect();
    let mut out = Vec::new();
    for _ in 0..len {
        let i = t.choose(remaining.len());
        let x = remaining.remove(i);
        out.push((t.chance(128), x));
    }
    out
}

/// mostly small alphabets (collisions between the two lists are frequent), sometimes up to 150 items
/// so that size thresholds (16, 32, 64, 128) are crossed
fn decode_alphabet(t: &mut Tape) -> usize {
    match t.weighted(&[6, 2, 1]) {
        0 => 1 + t.choose(12),
        1 => 13 + t.choose(30),
        _ => 43 + t.choose(108),
    }
}

fn word(x: u8) -> String {
    if (x as usize) < WORDS.len() {
        WORDS[x as usize].to_string()
    } else {
        format!("w{}", x)
    }
}

const WORDS: &[&str] = &["a", "b", "id", "name", "xmlns:x", "type", "é", "a-b", "A", "", "x:y", "名", "значение_от", "значение_до", "配送先住所番号", "配送先住所氏名", "ééééééééa", "ééééééééb"];

impl Property for C15 {
    fn id(&self) -> &'static str {
        "C15"
    }
    fn tape_sizes(&self) -> (usize, usize, usize) {
        (400, 0, 0)
    }
    fn cases(&self, tier: Tier) -> u64 {
        match tier {
            Tier::Quick => 200_000,
            Tier::Thorough => 4_000_000,
        }
    }
    fn check(&self, tapes: &Tapes, st: &mut Stats) -> Result<(), Failure> {
        let mut t = Tape::new(&tapes.a);
        let alphabet = decode_alphabet(&mut t);
        let strings = t.chance(128);
        let a = decode_list(&mut t, alphabet);
        let b = decode_list(&mut t, alphabet);
        if a.len().max(b.len()) > 16 {
            st.count("sampled.list_longer_than_16");
        }
        if a.len().max(b.len()) > 64 {
            st.count("sampled.list_longer_than_64");
        }
        if nontrivial(&a, &b) {
            st.nontrivial(hash_of(&(&a, &b, strings)));
            st.count("sampled.nontrivial");
        }
        st.count(if strings { "sampled.payload_string" } else { "sampled.payload_u8" });
        st.sample(|| json!({"first": format!("{:?}", a), "second": format!("{:?}", b), "payload": if strings {"String"} else {"u8"}}));
        if strings {
            let f = |l: &L<u8>| -> L<String> { l.iter().map(|(m, x)| (*m, word(*x))).collect() };
            check_pair(&f(&a), &f(&b))
        } else {
            check_pair(&a, &b)
        }
    }
    fn extra(&self, tier: Tier, _seed: u64, st: &mut Stats) -> Result<(), (Failure, Value)> {
        let n = match tier {
            Tier::Quick => 4,
            Tier::Thorough => 5,
        };
        let lists = all_lists(n);
        let threads = 16usize;
        let results: Vec<(u64, u64, Option<(Failure, Value)>)> = std::thread::scope(|s| {
            let hs: Vec<_> = (0..threads)
                .map(|ti| {
                    let lists = &lists;
                    s.spawn(move || {
                        let mut evals = 0u64;
                        let mut nt = 0u64;
                        for (i, a) in lists.iter().enumerate() {
                            if i % threads != ti {
                                continue;
                            }
                            for b in lists.iter() {
                                evals += 1;
                                if nontrivial(a, b) {
                                    nt += 1;
                                }
                                if let Err(f) = check_pair(a, b) {
                                    return (evals, nt, Some((f, json!({"first": a, "second": b}))));
                                }
                            }
                        }
                        (evals, nt, None)
                    })
                })
                .collect();
            hs.into_iter().map(|h| h.join().expect("join")).collect()
        });
        let mut first = None;
        for (e, nt, f) in results {
            st.evaluations += e;
            st.add("exhaustive.pairs", e);
            st.nontrivial_enumerated += nt;
            st.add("exhaustive.nontrivial", nt);
            if first.is_none() {
                first = f;
            }
        }
        st.add("exhaustive.lists", lists.len() as u64);
        st.add("exhaustive.alphabet", n as u64);
        match first {
            Some(x) => Err(x),
            None => Ok(()),
        }
    }
    fn replay_custom(&self, payload: &Value) -> Result<(), Failure> {
        let f = |v: &Value| -> L<u8> {
            v.as_array()
                .map(|a| a.iter().map(|p| (p[0].as_bool().unwrap_or(false), p[1].as_u64().unwrap_or(0) as u8)).collect())
                .unwrap_or_default()
        };
        check_pair(&f(&payload["first"]), &f(&payload["second"]))
    }
    fn rule(&self) -> String {
        "exhaustive: all ordered pairs of duplicate-free tagged lists over an alphabet of 4 (quick) / 5 (thorough) items; sampled: tape-decoded pairs over alphabets of 1..12 (two in three), 13..42 or 43..150 items with u8 and String payloads. Non-trivial = at least two items occur only in the second list, or some shared item carries differing tags. distinct_nontrivial = enumerated non-trivial pairs (distinct by construction) + distinct hashes of sampled non-trivial pairs.".into()
    }
    fn assumptions(&self) -> Vec<String> {
        vec![
            "inputs are duplicate-free lists, as the statement requires".into(),
            "payload equality is PartialEq of u8 / String; other payload types are not sampled".into(),
        ]
    }
    fn describe(&self, tapes: &Tapes) -> Value {
        let mut t = Tape::new(&tapes.a);
        let alphabet = decode_alphabet(&mut t);
        let strings = t.chance(128);
        let a = decode_list(&mut t, alphabet);
        let b = decode_list(&mut t, alphabet);
        json!({"first": a, "second": b, "strings": strings})
    }
    fn exhaustive(&self) -> bool {
        true
    }
    fn health(&self, _tier: Tier) -> Vec<(&'static str, u64)> {
        vec![("sampled.nontrivial", 1000), ("exhaustive.nontrivial", 1000), ("sampled.list_longer_than_16", 1000), ("sampled.list_longer_than_64", 200)]
    }
}
