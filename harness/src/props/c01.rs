//! C01 — generated structs admit every document they were inferred from (validity predicate).

use super::common::*;
use crate::model::{attr_bound_local, local_of, Domain, Node};
use crate::refinf::infer_docs;
use crate::rendered::RNode;
use crate::runner::{hash_of, Failure, Property, Stats, Tapes, Tier};
use crate::sut::Options;
use crate::xmlser::SurfaceCfg;
use serde_json::{json, Value};

pub struct C01;

/// does the struct tree describe this occurrence? (never consults the reference inference)
pub fn admits(n: &Node, r: &RNode, path: &str) -> Result<(), String> {
    let here = format!("{}/{}", path, n.name);
    for a in &n.attrs {
        let b = attr_bound_local(a);
        if r.attr(b).is_none() {
            return Err(format!("{}: attribute `{}` has no field bound to `@{}` in struct {}", here, a, b, r.struct_name));
        }
    }
    for f in &r.attrs {
        if !f.optional && !n.attrs.iter().any(|a| attr_bound_local(a) == f.bound) {
            return Err(format!("{}: struct {} requires attribute `@{}` (field {} is not Option) but this occurrence lacks it", here, r.struct_name, f.bound, f.ident));
        }
    }
    for c in n.children() {
        let b = local_of(&c.name);
        let f = r.child(b).ok_or_else(|| format!("{}: child `{}` has no field bound to `{}` in struct {}", here, c.name, b, r.struct_name))?;
        match &f.node {
            None => {
                if !c.attrs.is_empty() || c.children().next().is_some() {
                    return Err(format!("{}: child `{}` is typed String but this occurrence has attributes or child elements", here, c.name));
                }
            }
            Some(sub) => admits(c, sub, &here)?,
        }
    }
    for f in &r.children {
        let cnt = n.children().filter(|c| local_of(&c.name) == f.bound).count();
        if !f.optional && cnt == 0 {
            return Err(format!("{}: struct {} requires child `{}` (field {}: {} is not Option) but this occurrence lacks it", here, r.struct_name, f.bound, f.ident, f.base));
        }
        if !f.vec && cnt > 1 {
            return Err(format!("{}: child `{}` occurs {} times but field {} of struct {} is not a Vec", here, f.bound, cnt, f.ident, r.struct_name));
        }
    }
    if n.has_nonblank() && r.text.is_none() {
        return Err(format!("{}: occurrence has character data but struct {} has no text field", here, r.struct_name));
    }
    Ok(())
}

fn big_oracle(docs: &[&Node], bytes: &[Vec<u8>]) -> Result<bool, String> {
    let root = crate::sut::parse_seq(bytes).map_err(|(i, e)| format!("document #{} rejected: {}", i + 1, e))?;
    for by_name in [false, true] {
        let src = root.to_serde_struct(&crate::sut::opts_quick(by_name, "D"));
        let defs = crate::rendered::read_lines(&src).map_err(|e| format!("output unreadable: {}", e))?;
        let tree = crate::rendered::build_tree(&defs, "@", "$text").map_err(|e| format!("not a tree: {}", e))?;
        for (i, d) in docs.iter().enumerate() {
            admits(d, &tree, "").map_err(|e| format!("document #{} is not described by the rendered structs: {}", i + 1, e))?;
        }
    }
    Ok(true)
}

impl Property for C01 {
    fn id(&self) -> &'static str {
        "C01"
    }
    fn tape_sizes(&self) -> (usize, usize, usize) {
        (900, 600, 0)
    }
    fn cases(&self, tier: Tier) -> u64 {
        match tier {
            Tier::Quick => 60_000,
            Tier::Thorough => 4_000_000,
        }
    }
    fn check(&self, tapes: &Tapes, st: &mut Stats) -> Result<(), Failure> {
        let p = prepare(tapes, &Domain::general(), &SurfaceCfg::full());
        // the reference inference is used for classification only, never by the oracle
        let schema = infer_docs(&p.case.docs);
        let cl = classify(&p.case, &schema);
        record_classes(&cl, &p, st);
        if cl.optional_decisions + cl.vec_decisions + cl.optional_attrs > 0 {
            st.nontrivial(hash_of(&p.case.docs));
        }
        st.sample(|| describe_case(&p));
        let root = parse_docs(&p.bytes)?;
        let by_name = tapes.b.first().map(|b| b & 1 == 1).unwrap_or(false);
        let mut opts = Options::quick_xml_de();
        if by_name {
            opts.sort = crate::sut::SortBy::XmlName;
            st.count("rendered_sorted_by_name");
        }
        let (src, _defs, tree) = render_tree(&root, &opts)?;
        for (i, d) in p.case.docs.iter().enumerate() {
            if local_of(&d.name) != local_of(&p.case.docs[0].name) {
                continue;
            }
            admits(d, &tree, "").map_err(|e| {
                Failure::new(format!("document #{} is not described by the rendered structs: {}", i + 1, e))
                    .with_detail(json!({"case": describe_case(&p), "rendered": src}))
            })?;
        }
        Ok(())
    }
    fn extra(&self, tier: Tier, seed: u64, st: &mut Stats) -> Result<(), (Failure, Value)> {
        // small-scope exhaustive part: every ordered pair / triple of small documents must be admitted
        let scopes: &[(usize, usize)] = match tier {
            Tier::Quick => &[(3, 2), (2, 3)],
            Tier::Thorough => &[(4, 2), (2, 3)],
        };
        for (max_nodes, arity) in scopes {
            let (evals, nts, fail) = super::smallscope::run_tuples(*max_nodes, *arity, |docs, bytes| {
                let root = crate::sut::parse_seq(bytes).map_err(|(i, e)| format!("document #{} rejected: {}", i + 1, e))?;
                let src = root.to_serde_struct(&Options::quick_xml_de());
                let defs = crate::rendered::read_lines(&src).map_err(|e| format!("output unreadable: {}\n{}", e, src))?;
                let tree = crate::rendered::build_tree(&defs, "@", "$text").map_err(|e| format!("not a tree: {}\n{}", e, src))?;
                for (i, d) in docs.iter().enumerate() {
                    admits(d, &tree, "").map_err(|e| format!("document #{} is not described by the rendered structs: {}\n{}", i + 1, e, src))?;
                }
                Ok(docs.len() >= 2)
            });
            st.evaluations += evals;
            st.nontrivial_enumerated += nts;
            st.add(&format!("exhaustive.nodes<={}.sequences_of_{}", max_nodes, arity), evals);
            if let Some((e, docs)) = fail {
                return Err((Failure::new(format!("small-scope exhaustive search: {}", e)).with_detail(json!({"documents": docs})), json!({"small_scope_documents": docs})));
            }
        }
        // families beyond the small scope (sizes around plausible limits: windows, inline capacities, two-digit suffixes)
        {
            let (n, fail) = super::smallscope::run_big_families(big_oracle);
            st.evaluations += n;
            st.nontrivial_enumerated += n;
            st.add("big_families", n);
            if let Some((label, e, docs)) = fail {
                let first = e.lines().next().unwrap_or("").to_string();
                return Err((Failure::new(format!("family `{}`: {}", label, first)).with_detail(json!({"documents": docs, "message": e})), json!({"big_family": label})));
            }
        }
        // the coverage-guided tape campaign lives in C03 (its target runs this property's oracle as well)
        let _ = seed;
        Ok(())
    }
    fn replay_custom(&self, payload: &Value) -> Result<(), Failure> {
        if let Some(l) = payload["big_family"].as_str() {
            return super::smallscope::replay_big_family(l, big_oracle).map_err(Failure::new);
        }
        if payload["small_scope_documents"].is_array() {
            // the C03 replay rebuilds the DOM of canonical documents; admits() is implied by its exact comparison
            return crate::props::c03::C03.replay_custom(payload);
        }
        match crate::fuzzrun::replay(payload) {
            // the tape target runs the oracles of several properties; only this property's verdict counts here
            Some(Err(f)) if f.msg.starts_with("C01:") => Err(f),
            _ => Ok(()),
        }
    }
    fn rule(&self) -> String {
        "small-scope exhaustive: all ordered pairs of documents over {r; a,b; attribute k; text} with <= 3 elements and all triples with <= 2 (thorough: pairs with <= 4); sampled: tape-decoded sequences of 1..5 well-formed documents (all name classes, full surface variation, 1 in 8 wide); every source document is walked against the struct tree read from the rendering (attributes/children bound, required fields present, non-Vec fields at most once, character data only where a text field or String exists). Non-trivial = the sequence forces at least one Option or Vec decision (an attribute or child absent from some occurrence, or a repeated child); distinct by hash of the structural documents.".into()
    }
    fn assumptions(&self) -> Vec<String> {
        vec![
            "no two element names and no two attribute names of a case are equal after prefix removal (pool-level, stronger than the sibling-level precondition of the statement)".into(),
            "whitespace-only character data and empty CDATA are not required to have a text field (weaker reading of the last clause; exactness is C03's business)".into(),
            "documents up to ~40 nodes (60 in wide mode), depth <= 6, k <= 5".into(),
        ]
    }
    fn describe(&self, tapes: &Tapes) -> Value {
        describe_case(&prepare(tapes, &Domain::general(), &SurfaceCfg::full()))
    }
    fn exhaustive(&self) -> bool {
        true
    }
    fn health(&self, _tier: Tier) -> Vec<(&'static str, u64)> {
        vec![("nontrivial", 5000), ("optional_child_reseen", 500), ("vec_only_in_later_document", 500), ("k>=3", 1000), ("prefixed_names", 1000), ("surface.both_empty_forms", 1000), ("surface.cdata", 1000)]
    }
}
