//! Helpers shared by the document-sequence properties.

use crate::model::{attr_bound_local, decode_case, local_of, Case, Domain, Item, Node};
use crate::refinf::Schema;
use crate::rendered::{build_tree, read_both, RNode, StructDef};
use crate::runner::{Failure, Stats, Tapes};
use crate::sut::{self, Element, Necessity, Options};
use crate::tape::Tape;
use crate::xmlser::{canonical, serialize_docs, SerStats, SurfaceCfg, VNode};
use serde_json::{json, Value};

pub struct Prepared {
    pub case: Case,
    pub bytes: Vec<Vec<u8>>,
    pub values: Vec<VNode>,
    pub ser: SerStats,
}

pub fn prepare(tapes: &Tapes, dom: &Domain, surf: &SurfaceCfg) -> Prepared {
    let mut t = Tape::new(&tapes.a);
    let small;
    let dom = if tapes.small {
        small = dom.small();
        &small
    } else {
        dom
    };
    let case = decode_case(&mut t, dom);
    let (bytes, values, ser) = serialize_docs(&case.docs, &tapes.b, surf);
    Prepared { case, bytes, values, ser }
}

pub fn describe_case(p: &Prepared) -> Value {
    json!({
        "elem_pool": p.case.elem_pool,
        "attr_pool": p.case.attr_pool,
        "wide": p.case.wide,
        "documents": p.bytes.iter().map(|b| String::from_utf8_lossy(b).to_string()).collect::<Vec<_>>(),
        "canonical": p.case.docs.iter().map(canonical).collect::<Vec<_>>(),
    })
}

pub fn parse_docs(bytes: &[Vec<u8>]) -> Result<Element<String>, Failure> {
    sut::parse_seq(bytes).map_err(|(i, e)| {
        Failure::new(format!("well-formed document #{} was rejected: {}", i + 1, e)).with_signature("reject_wellformed")
    })
}

/// parse(D1), extend(D2), ... with a rendering after every step (both sort orders alternate): what callers do who show a
/// preview after every file; the renderings are discarded
pub fn parse_docs_observed(bytes: &[Vec<u8>]) -> Result<Element<String>, Failure> {
    let mut root: Option<Element<String>> = None;
    for (i, b) in bytes.iter().enumerate() {
        let r = sut::parse_with(b, root.take(), &sut::ReaderCfg::default_slice())
            .map_err(|e| Failure::new(format!("well-formed document #{} was rejected: {}", i + 1, e)).with_signature("reject_wellformed"))?;
        let _ = r.to_serde_struct(&sut::opts_quick(i % 2 == 1, "Debug"));
        root = Some(r);
    }
    root.ok_or_else(|| Failure::new("no document"))
}

pub fn render_tree(root: &Element<String>, opts: &Options) -> Result<(String, Vec<StructDef>, RNode), Failure> {
    let src = root.to_serde_struct(opts);
    let defs = read_both(&src).map_err(|e| Failure::new(format!("rendered output unreadable: {}\n{}", e, src)).with_signature("unreadable_output"))?;
    let tree = build_tree(&defs, &opts.attribute_prefix, &opts.text_identifier)
        .map_err(|e| Failure::new(format!("rendered structs do not form a tree: {}\n{}", e, src)).with_signature("not_a_tree"))?;
    Ok((src, defs, tree))
}

/// exact comparison of the reference schema with the struct tree (C03, C06), keyed by bound XML name
pub fn compare_schema(s: &Schema, r: &RNode, path: &str) -> Result<(), String> {
    let here = format!("{}/{}", path, s.name);
    if s.attrs.len() != r.attrs.len() {
        return Err(format!(
            "{}: {} distinct attributes in the documents {:?} but {} attribute fields {:?}",
            here,
            s.attrs.len(),
            s.attrs.iter().map(|a| &a.name).collect::<Vec<_>>(),
            r.attrs.len(),
            r.attrs.iter().map(|a| &a.bound).collect::<Vec<_>>()
        ));
    }
    for a in &s.attrs {
        let b = attr_bound_local(&a.name);
        match r.attr(b) {
            None => return Err(format!("{}: attribute `{}` has no field bound to `{}`", here, a.name, b)),
            Some(f) => {
                if f.optional != a.optional {
                    return Err(format!(
                        "{}: attribute `{}` is {} in the documents but the field is {}",
                        here,
                        a.name,
                        if a.optional { "absent from some occurrence" } else { "present in every occurrence" },
                        if f.optional { "Option" } else { "required" }
                    ));
                }
            }
        }
    }
    if s.text != r.text.is_some() {
        return Err(format!("{}: documents {} character data here but the struct {} a text field", here, if s.text { "have" } else { "have no" }, if r.text.is_some() { "has" } else { "lacks" }));
    }
    if s.children.len() != r.children.len() {
        return Err(format!(
            "{}: {} distinct child names {:?} but {} child fields {:?}",
            here,
            s.children.len(),
            s.children.iter().map(|c| &c.schema.name).collect::<Vec<_>>(),
            r.children.len(),
            r.children.iter().map(|c| &c.bound).collect::<Vec<_>>()
        ));
    }
    for c in &s.children {
        let b = local_of(&c.schema.name);
        let f = r.child(b).ok_or_else(|| format!("{}: child `{}` has no field bound to `{}`", here, c.schema.name, b))?;
        if f.optional != c.optional {
            return Err(format!(
                "{}: child `{}` is {} but the field is {}",
                here,
                c.schema.name,
                if c.optional { "absent from some occurrence" } else { "present in every occurrence" },
                if f.optional { "Option" } else { "required" }
            ));
        }
        if f.vec != c.multiple {
            return Err(format!(
                "{}: child `{}` {} but the field is {}",
                here,
                c.schema.name,
                if c.multiple { "occurs more than once in some occurrence" } else { "never occurs twice in one occurrence" },
                if f.vec { "a Vec" } else { "single" }
            ));
        }
        match (&f.node, c.schema.string_typed()) {
            (None, true) => {}
            (Some(n), false) => compare_schema(&c.schema, n, &here)?,
            (None, false) => return Err(format!("{}: child `{}` is typed String but has attributes, children or no text", here, c.schema.name)),
            (Some(_), true) => return Err(format!("{}: child `{}` is text-only but got a struct instead of String", here, c.schema.name)),
        }
    }
    Ok(())
}

/// comparison of the returned Element tree with the reference (second observation point of C03)
pub fn compare_element(s: &Schema, e: &Element<String>, path: &str) -> Result<(), String> {
    let here = format!("{}/{}", path, s.name);
    if e.name != s.name {
        return Err(format!("{}: element is named `{}`", here, e.name));
    }
    if e.text.is_some() != s.text {
        return Err(format!("{}: Element.text.is_some()={} but documents {} character data", here, e.text.is_some(), if s.text { "have" } else { "have no" }));
    }
    if e.children().len() != s.children.len() {
        return Err(format!(
            "{}: Element has children {:?}, documents have {:?}",
            here,
            e.children().iter().map(|c| c.inner_t().name.clone()).collect::<Vec<_>>(),
            s.children.iter().map(|c| &c.schema.name).collect::<Vec<_>>()
        ));
    }
    for c in &s.children {
        let n = e.get_child(&c.schema.name).ok_or_else(|| format!("{}: Element lacks child `{}`", here, c.schema.name))?;
        let is_opt = matches!(n, Necessity::Optional(_));
        if is_opt != c.optional {
            return Err(format!("{}: child `{}` tagged {} but reference says optional={}", here, c.schema.name, if is_opt { "Optional" } else { "Mandatory" }, c.optional));
        }
        if n.inner_t().standalone() == c.multiple {
            return Err(format!("{}: child `{}` standalone()={} but reference says multiple={}", here, c.schema.name, n.inner_t().standalone(), c.multiple));
        }
        compare_element(&c.schema, n.inner_t(), &here)?;
    }
    Ok(())
}

// ---------------------------------------------------------------------------------------
// classification (generator health and evidence histograms)

pub struct Classes {
    pub k: usize,
    pub max_depth: usize,
    pub positions_multi_occ: usize,
    pub optional_decisions: usize,
    pub vec_decisions: usize,
    pub optional_and_vec: usize,
    pub reseen_after_absent: usize,
    pub vec_only_later_doc: usize,
    pub blank_only_text: usize,
    pub emptycdata_only_text: usize,
    pub occ_ge4: usize,
    pub deep_repetition: usize,
    pub prefixed: bool,
    pub optional_attrs: usize,
}

fn occ_walk<'a>(occs: &[&'a Node], s: &Schema, depth: usize, doc_of: &[usize], c: &mut Classes) {
    if occs.len() >= 2 {
        c.positions_multi_occ += 1;
    }
    if occs.len() >= 4 {
        c.occ_ge4 += 1;
    }
    if s.text {
        let all_blank = occs.iter().all(|o| o.items.iter().all(|i| !matches!(i, Item::Chars { blank: false })));
        let any_chars = occs.iter().any(|o| o.items.iter().any(|i| matches!(i, Item::Chars { .. })));
        if all_blank && any_chars {
            c.blank_only_text += 1;
        }
        if !any_chars {
            c.emptycdata_only_text += 1;
        }
    }
    c.optional_attrs += s.attrs.iter().filter(|a| a.optional).count();
    for ch in &s.children {
        if ch.optional {
            c.optional_decisions += 1;
        }
        if ch.multiple {
            c.vec_decisions += 1;
            if depth >= 3 {
                c.deep_repetition += 1;
            }
        }
        if ch.optional && ch.multiple {
            c.optional_and_vec += 1;
        }
        // presence pattern over occurrences: present, absent, present again
        let pres: Vec<bool> = occs.iter().map(|o| o.children().any(|x| x.name == ch.schema.name)).collect();
        let mut state = 0;
        for p in &pres {
            state = match (state, *p) {
                (0, true) => 1,
                (1, false) => 2,
                (2, true) => 3,
                (s, _) => s,
            };
        }
        if state == 3 {
            c.reseen_after_absent += 1;
        }
        // repeated only in a later document
        let mut first_multi_doc = None;
        for (o, d) in occs.iter().zip(doc_of.iter()) {
            if o.children().filter(|x| x.name == ch.schema.name).count() >= 2 {
                first_multi_doc = Some(*d);
                break;
            }
        }
        if let Some(d) = first_multi_doc {
            if d > 0 {
                c.vec_only_later_doc += 1;
            }
        }
        let mut sub: Vec<&Node> = Vec::new();
        let mut sub_doc: Vec<usize> = Vec::new();
        for (o, d) in occs.iter().zip(doc_of.iter()) {
            for x in o.children().filter(|x| x.name == ch.schema.name) {
                sub.push(x);
                sub_doc.push(*d);
            }
        }
        occ_walk(&sub, &ch.schema, depth + 1, &sub_doc, c);
    }
}

pub fn classify(case: &Case, schema: &Schema) -> Classes {
    let mut c = Classes {
        k: case.docs.len(),
        max_depth: case.docs.iter().map(|d| d.depth()).max().unwrap_or(0),
        positions_multi_occ: 0,
        optional_decisions: 0,
        vec_decisions: 0,
        optional_and_vec: 0,
        reseen_after_absent: 0,
        vec_only_later_doc: 0,
        blank_only_text: 0,
        emptycdata_only_text: 0,
        occ_ge4: 0,
        deep_repetition: 0,
        prefixed: case.elem_pool.iter().chain(case.attr_pool.iter()).any(|n| n.contains(':')),
        optional_attrs: 0,
    };
    let occs: Vec<&Node> = case.docs.iter().collect();
    let doc_of: Vec<usize> = (0..case.docs.len()).collect();
    occ_walk(&occs, schema, 1, &doc_of, &mut c);
    c
}

pub fn record_classes(c: &Classes, p: &Prepared, st: &mut Stats) {
    st.count(&format!("docs.k={}", c.k));
    st.count(&format!("depth.{}", if c.max_depth >= 7 { "7+".to_string() } else { c.max_depth.to_string() }));
    let mut flag = |name: &str, on: bool| {
        if on {
            st.count(name)
        }
    };
    flag("positions_with_2+_occurrences", c.positions_multi_occ > 0);
    flag("positions_with_4+_occurrences", c.occ_ge4 > 0);
    flag("optional_child", c.optional_decisions > 0);
    flag("optional_attr", c.optional_attrs > 0);
    flag("vec_child", c.vec_decisions > 0);
    flag("optional_and_vec", c.optional_and_vec > 0);
    flag("optional_child_reseen", c.reseen_after_absent > 0);
    flag("vec_only_in_later_document", c.vec_only_later_doc > 0);
    flag("blank_only_text_position", c.blank_only_text > 0);
    flag("empty_cdata_only_text_position", c.emptycdata_only_text > 0);
    flag("repetition_at_depth_3+", c.deep_repetition > 0);
    flag("k>=3", c.k >= 3);
    flag("prefixed_names", c.prefixed);
    flag("wide_mode", p.case.wide);
    flag("amplified_to_many_occurrences", p.case.amplified);
    flag("long_sequence_6..12_documents", p.case.long_sequence);
    flag("surface.cdata", p.ser.cdata > 0);
    flag("surface.comments_or_pis", p.ser.comments > 0);
    flag("surface.both_empty_forms", p.ser.selfclosed > 0 && p.ser.expanded_empty > 0);
    flag("surface.general_entity_refs", p.ser.entity_refs > 0);
    flag("surface.xsi_nil_true", p.ser.nil_true > 0);
    flag("surface.declared_legacy_encoding", p.ser.legacy_decl > 0);
}

// ---------------------------------------------------------------------------------------
// options decoded from a tape

#[derive(Clone, Debug)]
pub struct OptSpec {
    pub prefix: String,
    pub text_id: String,
    pub derive: String,
    pub by_name: bool,
}

impl OptSpec {
    /// through the public builder, as a caller (and the CLI) would set the derive string
    pub fn to_options(&self) -> Options {
        sut::opts_custom(&self.prefix, &self.text_id, "", self.by_name).derive(&self.derive)
    }
    /// as a struct literal, bypassing the builder
    pub fn to_options_literal(&self) -> Options {
        sut::opts_custom(&self.prefix, &self.text_id, &self.derive, self.by_name)
    }
    pub fn json(&self) -> Value {
        json!({"attribute_prefix": self.prefix, "text_identifier": self.text_id, "derive": self.derive, "sort_by_name": self.by_name})
    }
}

pub const PREFIXES: &[&str] = &["@", "", "attr_", "$", "@@", "a", "_", "#", "é", "@\"", " ", "ns_", "x_", "xsi_", "xml_", "p_", "a_", "r_", "item_"];
pub const TEXT_IDS: &[&str] = &["$text", "$value", "text", "#text", "", "body", "$", "t e x t", "\"q\"", "名"];
pub const DERIVES: &[&str] = &[
    "Serialize, Deserialize",
    "",
    "Debug",
    "Debug, Clone, PartialEq",
    " Debug ",
    "Debug,Serialize",
    "Deserialize",
    "serde::Serialize, serde::Deserialize",
    "Default, Debug, Clone, PartialEq, Eq, Hash",
    "é",
    "A(B)",
    "\"x\"",
    "Debug)] #[cfg(x",
    "\n",
    " ",
    "Debug, Clone, Debug",
    "Serialize, Deserialize, Serialize, Debug, PartialEq",
    "A, A",
];

const OPT_CHARS: &[char] = &[
    'a', 'Z', '0', '_', '@', '$', '#', ' ', '"', '\\', '\'', '(', ')', '[', ']', '{', '}', ',', ':', ';', '=', '<', '>', '&', '%', '!', '?', '*', '+', '-', '/', '.', '\n', '\t', 'é', '名', '𝄞', 'ß',
];

fn random_option_string(t: &mut Tape, max: usize) -> String {
    // one random option string in ten is long (beyond 64, 128, 255 and 1024 bytes)
    if t.chance(26) {
        let unit = *t.pick(&["Debug, ", "x", "é", "Clone,", "a_", "名"]);
        let len = *t.pick(&[70usize, 130, 260, 1100]);
        let mut s = String::new();
        while s.len() < len {
            s.push_str(unit);
        }
        return s;
    }
    let n = t.choose(max + 1);
    (0..n).map(|_| *t.pick(OPT_CHARS)).collect()
}

pub fn decode_options(t: &mut Tape) -> OptSpec {
    // index 0 of every list is the quick-xml preset value; one option in four is a random string
    let prefix = if t.chance(64) { random_option_string(t, 6) } else { t.pick(PREFIXES).to_string() };
    let text_id = if t.chance(64) { random_option_string(t, 8) } else { t.pick(TEXT_IDS).to_string() };
    let derive = if t.chance(64) { random_option_string(t, 40) } else { t.pick(DERIVES).to_string() };
    OptSpec { prefix, text_id, derive, by_name: t.chance(128) }
}

/// case-folded alphanumerics: names with equal fold collide after PascalCase / snake_case normalisation
pub fn fold(s: &str) -> String {
    s.chars().filter(|c| c.is_alphanumeric()).flat_map(|c| c.to_lowercase()).collect()
}

/// some position has two distinct child names (or an attribute and a child) with equal fold
pub fn has_colliding_fields(s: &Schema) -> bool {
    let mut folds: Vec<String> = s.children.iter().map(|c| fold(local_of(&c.schema.name))).collect();
    folds.extend(s.attrs.iter().map(|a| fold(&a.name)));
    let mut sorted = folds.clone();
    sorted.sort();
    sorted.dedup();
    if sorted.len() != folds.len() {
        return true;
    }
    s.children.iter().any(|c| has_colliding_fields(&c.schema))
}

/// some position with >= 2 occurrences has >= 2 optional children (several demotions at one position)
pub fn has_multi_demotion(s: &Schema) -> bool {
    (s.occurrences >= 2 && s.children.iter().filter(|c| c.optional).count() >= 2) || s.children.iter().any(|c| has_multi_demotion(&c.schema))
}
