//! C08 — errors are reported faithfully and only when the input is at fault (differential against an
//! independent pass over the same reader events).

use crate::bytesgen::{decode_bytes, ByteCase};
use crate::runner::{hash_of, Failure, Property, Stats, Tapes, Tier};
use crate::sut::{extend_struct, into_struct, Element, Options, ParserError};
use crate::tape::Tape;
use crate::verdict::{expected_with, Expect};
use quick_xml::reader::Reader;
use serde_json::{json, Value};

pub struct C08;

#[derive(Clone, Copy, Debug, PartialEq)]
enum Kind {
    Slice,
    Str,
    Buf(usize),
}

fn run_one(input: &[u8], kind: Kind, base: Option<Element<String>>) -> (Result<Element<String>, ParserError>, Expect) {
    macro_rules! both {
        ($mk:expr) => {{
            let mut r1 = $mk;
            let res = match base {
                None => into_struct(&mut r1),
                Some(b) => extend_struct(&mut r1, b),
            };
            let mut r2 = $mk;
            let (exp, _) = expected_with(&mut r2);
            (res, exp)
        }};
    }
    match kind {
        Kind::Slice => both!(Reader::from_reader(input)),
        Kind::Str => {
            let s = std::str::from_utf8(input).expect("caller checked utf8");
            both!(Reader::from_str(s))
        }
        Kind::Buf(n) => both!(Reader::from_reader(std::io::BufReader::with_capacity(n, input))),
    }
}

/// Debug form of the error that an initial parse of an element-less input yields (computed once from the code under
/// test): an error for undecodable bytes or a broken attribute list must not be this one
fn no_element_error() -> &'static str {
    static S: std::sync::OnceLock<String> = std::sync::OnceLock::new();
    S.get_or_init(|| match into_struct(&mut Reader::from_reader(&b"<!-- nothing -->"[..])) {
        Err(e) => format!("{:?}", e),
        Ok(_) => "<no error>".to_string(),
    })
}

/// Only the syntax-error variant is named: the statement says what it carries. For the other conditions the statement
/// demands an error (any variant, so that a reworked error type neither breaks the build nor raises an alarm) that is
/// not a syntax error, not the "no element" error, and says something.
pub fn judge(res: &Result<Element<String>, ParserError>, exp: &Expect, initial: bool) -> Result<(), String> {
    let said_something = |e: &ParserError| -> Result<(), String> {
        if format!("{}", e).trim().is_empty() {
            Err(format!("Display of the error {:?} is empty", e))
        } else {
            Ok(())
        }
    };
    match (exp, res) {
        (Expect::Clean { elements: 0, .. }, Err(ParserError::QuickXmlError(pos, e))) if initial => Err(format!("the input contains no element and no syntax error, but the initial parse reports a syntax error at {}: {:?}", pos, e)),
        (Expect::Clean { elements: 0, .. }, Err(e)) if initial => said_something(e),
        (Expect::Clean { elements: 0, .. }, Ok(_)) if initial => Err("the input contains no element but the initial parse returned Ok".into()),
        (Expect::Clean { .. }, Ok(_)) => Ok(()),
        (Expect::Clean { elements, .. }, Err(e)) => Err(format!("no error condition in the input ({} elements) but the call failed with {:?}", elements, e)),
        (Expect::Syntax { buffer_position, error_position, debug, .. }, Err(ParserError::QuickXmlError(pos, e))) => {
            if format!("{:?}", e) != *debug {
                return Err(format!("reader reports {} but the returned error carries {:?}", debug, e));
            }
            if pos != buffer_position && pos != error_position {
                return Err(format!("reader position is {} (error position {}) but the returned error carries {}", buffer_position, error_position, pos));
            }
            // the statement is about what the error value carries; of its Display we only require that it says something
            said_something(res.as_ref().err().unwrap())
        }
        (Expect::Utf8 { .. } | Expect::Attr { .. }, Err(ParserError::QuickXmlError(pos, e))) => Err(format!("expected {:?} but the call reports a syntax error at {}: {:?}", exp, pos, e)),
        (Expect::Utf8 { .. } | Expect::Attr { .. }, Err(e)) => {
            if format!("{:?}", e) == no_element_error() {
                return Err(format!("expected {:?} but the call failed with {:?}", exp, e));
            }
            said_something(e)
        }
        (exp, Ok(_)) => Err(format!("the input has an error condition ({:?}) but the call returned Ok", exp)),
        (exp, Err(e)) => Err(format!("expected {:?} but the call failed with {:?}", exp, e)),
    }
}

/// the oracle on one input under the default reader (used by the fuzz target): initial parse and extension of a fixed base
pub fn check_default(input: &[u8]) -> Result<(), String> {
    let (res, exp) = run_one(input, Kind::Slice, None);
    judge(&res, &exp, true).map_err(|e| format!("C08 into_struct: {}", e))?;
    let mut r = Reader::from_reader(&b"<base k='1'><x/></base>"[..]);
    let base = into_struct(&mut r).map_err(|e| format!("base document rejected: {}", e))?;
    let (res, exp) = run_one(input, Kind::Slice, Some(base));
    judge(&res, &exp, false).map_err(|e| format!("C08 extend_struct: {}", e))
}

fn show(b: &[u8]) -> String {
    String::from_utf8_lossy(b).to_string()
}

fn decode(tapes: &Tapes) -> (ByteCase, Kind) {
    let mut m = Tape::new(&tapes.c);
    let k = m.choose(4);
    let cap = *m.pick(&[1usize, 2, 3, 7, 64, 4096]);
    let case = decode_bytes(tapes, &mut m);
    let kind = match k {
        0 | 1 => Kind::Slice,
        2 => Kind::Str,
        _ => Kind::Buf(cap),
    };
    (case, kind)
}

impl Property for C08 {
    fn id(&self) -> &'static str {
        "C08"
    }
    fn tape_sizes(&self) -> (usize, usize, usize) {
        (300, 200, 120)
    }
    fn cases(&self, tier: Tier) -> u64 {
        match tier {
            Tier::Quick => 200_000,
            Tier::Thorough => 12_000_000,
        }
    }
    fn stack_mib(&self) -> usize {
        32
    }
    fn check(&self, tapes: &Tapes, st: &mut Stats) -> Result<(), Failure> {
        let (case, kind) = decode(tapes);
        st.count(&format!("gen.{}", case.kind));
        st.sample(|| json!({"inputs": case.inputs.iter().map(|b| show(b)).collect::<Vec<_>>(), "reader": format!("{:?}", kind)}));
        let mut base: Option<Element<String>> = None;
        for (i, input) in case.inputs.iter().enumerate() {
            // deep chains are C07's business; keep recursion of the harness itself bounded
            if crate::verdict::nesting_depth(input, false, true) > 400 {
                st.count("skipped.depth>400");
                continue;
            }
            let kind = if kind == Kind::Str && std::str::from_utf8(input).is_err() { Kind::Slice } else { kind };
            let initial = base.is_none();
            let keep = base.clone();
            let before = keep.as_ref().map(|b| b.to_serde_struct(&Options::quick_xml_de()));
            let (res, exp) = run_one(input, kind, base.take());
            st.count(&format!("{}.{}", if initial { "parse" } else { "extend" }, exp.class()));
            st.count(match kind {
                Kind::Slice => "reader.from_reader(slice)",
                Kind::Str => "reader.from_str",
                Kind::Buf(_) => "reader.bufreader",
            });
            if exp.events() >= 3 {
                st.nontrivial(hash_of(&(input, initial)));
            }
            let what = if initial { "into_struct" } else { "extend_struct" };
            judge(&res, &exp, initial).map_err(|e| {
                Failure::new(format!("{} on input #{}: {}", what, i + 1, e)).with_detail(json!({
                    "inputs": case.inputs.iter().map(|b| show(b)).collect::<Vec<_>>(),
                    "input_hex": crate::runner::hex(input),
                    "reader": format!("{:?}", kind),
                }))
            })?;
            match res {
                Ok(r) => {
                    if let (Expect::Clean { elements: 0, .. }, Some(b)) = (&exp, &before) {
                        // an element-less extension leaves the structure as it was
                        if &r.to_serde_struct(&Options::quick_xml_de()) != b {
                            return Err(Failure::new(format!("extend_struct on the element-less input #{} changed the structure", i + 1))
                                .with_detail(json!({"inputs": case.inputs.iter().map(|b| show(b)).collect::<Vec<_>>()})));
                        }
                    }
                    base = Some(r)
                }
                // the structure was moved into the failed call; continue the history from the clone
                Err(_) => base = keep,
            }
        }
        Ok(())
    }
    fn extra(&self, tier: Tier, seed: u64, st: &mut Stats) -> Result<(), (Failure, Value)> {
        // small-scope exhaustive histories over fragment inputs (well-formed pieces and the damaged ones)
        {
            let mut inputs = crate::bytesgen::fragment_inputs(9, 3);
            for extra in [&b"</a>"[..], b"<a>", b"<b x='1' x='2'/>", b"<a><b></a>", b"<a", b"<\xff/>", b"<a>\xff</a>", b"<a \xc2\xa0/>", b"<b\t\xc2\x85/>", b"<a \xe3\x80\x80></a>", b"<a k=\"1\"\xc2\xa0/>"] {
                inputs.push(extra.to_vec());
                let mut v = b"<a/>".to_vec();
                v.extend_from_slice(extra);
                inputs.push(v);
            }
            let n = inputs.len();
            let results: Vec<(u64, Option<(String, Vec<u8>, Vec<u8>)>)> = std::thread::scope(|s| {
                let hs: Vec<_> = (0..16usize)
                    .map(|w| {
                        let inputs = &inputs;
                        s.spawn(move || {
                            let mut evals = 0u64;
                            for i in (w..n).step_by(16) {
                                let (r1, e1) = run_one(&inputs[i], Kind::Slice, None);
                                evals += 1;
                                if let Err(e) = judge(&r1, &e1, true) {
                                    return (evals, Some((format!("into_struct: {}", e), inputs[i].clone(), vec![])));
                                }
                                let base = match r1 {
                                    Ok(b) => b,
                                    Err(_) => continue,
                                };
                                for j in 0..n {
                                    let (r2, e2) = run_one(&inputs[j], Kind::Slice, Some(base.clone()));
                                    evals += 1;
                                    if let Err(e) = judge(&r2, &e2, false) {
                                        return (evals, Some((format!("extend_struct: {}", e), inputs[i].clone(), inputs[j].clone())));
                                    }
                                }
                            }
                            (evals, None)
                        })
                    })
                    .collect();
                hs.into_iter().map(|h| h.join().expect("join")).collect()
            });
            for (e, f) in results {
                st.evaluations += e;
                st.add("exhaustive.fragment_histories", e);
                st.nontrivial_enumerated += e;
                if let Some((msg, a, b)) = f {
                    return Err((
                        Failure::new(format!("small-scope history parse({:?}), extend({:?}): {}", String::from_utf8_lossy(&a), String::from_utf8_lossy(&b), msg)),
                        json!({"history_hex": [crate::runner::hex(&a), crate::runner::hex(&b)]}),
                    ));
                }
            }
        }
        // faults that come late: behind n attributes of one tag, behind n sibling elements (sizes around plausible limits)
        {
            let mut n_runs = 0u64;
            for n in [1usize, 15, 16, 17, 31, 32, 33, 63, 64, 65, 127, 128, 129, 255, 256, 257, 300, 1023, 1024, 1025] {
                let attrs: String = (0..n).map(|i| format!(" k{}=\"\"", i)).collect();
                let kids: String = (0..n).map(|i| format!("<c{}/>", i)).collect();
                let same_kids: String = "<c/>".repeat(n);
                let mut inputs: Vec<Vec<u8>> = Vec::new();
                for fault in [&b" k0=\"\""[..], format!(" k{}=''", n - 1).as_bytes(), b" x=1", b" x", b" \xffk=\"\"", b" x=\"1", b""] {
                    // the fault is the last attribute of a self-closed root, of a start tag, and of a child behind n siblings
                    for (head, tail) in [("<a", &b"/>"[..]), ("<a", b"><b/></a>")] {
                        let mut v = head.as_bytes().to_vec();
                        v.extend_from_slice(attrs.as_bytes());
                        v.extend_from_slice(fault);
                        v.extend_from_slice(tail);
                        inputs.push(v);
                    }
                    for k in [&kids, &same_kids] {
                        let mut v = format!("<a>{}<z k=\"1\"", k).into_bytes();
                        v.extend_from_slice(fault);
                        v.extend_from_slice(b"/></a>");
                        inputs.push(v);
                    }
                }
                for k in [&kids, &same_kids] {
                    inputs.push(format!("<a>{}</b></a>", k).into_bytes());
                    inputs.push(format!("<a>{}<b></a>", k).into_bytes());
                    let mut v = format!("<a>{}<t>", k).into_bytes();
                    v.extend_from_slice(b"\xff</t></a>");
                    inputs.push(v);
                    let mut v = format!("<a>{}<", k).into_bytes();
                    v.extend_from_slice(b"\xff/></a>");
                    inputs.push(v);
                    inputs.push(format!("<a>{}", k).into_bytes());
                }
                for input in &inputs {
                    for base in [None, Some(&b"<a/>"[..])] {
                        n_runs += 1;
                        let (what, res, exp, initial) = match base {
                            None => {
                                let (r, e) = run_one(input, Kind::Slice, None);
                                ("into_struct", r, e, true)
                            }
                            Some(b) => {
                                let (r0, _) = run_one(b, Kind::Slice, None);
                                let b0 = match r0 {
                                    Ok(x) => x,
                                    Err(_) => continue,
                                };
                                let (r, e) = run_one(input, Kind::Slice, Some(b0));
                                ("extend_struct", r, e, false)
                            }
                        };
                        if let Err(e) = judge(&res, &exp, initial) {
                            let hist: Vec<String> = match base {
                                None => vec![crate::runner::hex(input)],
                                Some(b) => vec![crate::runner::hex(b), crate::runner::hex(input)],
                            };
                            let shown: String = String::from_utf8_lossy(input).chars().take(60).collect();
                            return Err((
                                Failure::new(format!("late fault behind n={} attributes / siblings: {} on `{}...` ({} bytes): {}", n, what, shown, input.len(), e)),
                                json!({"history_hex": hist}),
                            ));
                        }
                    }
                }
            }
            st.evaluations += n_runs;
            st.nontrivial_enumerated += n_runs;
            st.add("late_fault_family", n_runs);
        }
        if tier == Tier::Thorough {
            let runs = std::env::var("XSGV_FUZZ_RUNS").ok().and_then(|s| s.parse().ok()).unwrap_or(120_000u64);
            let c = crate::fuzzrun::Campaign { target: "fz_bytes", runs_per_worker: runs, workers: 16, seed: seed ^ 0xc08, max_len: 4096, seeds: crate::props::c07::fuzz_seeds(seed ^ 0xc08) };
            crate::fuzzrun::campaign_for("C08", &c, st)?;
        }
        Ok(())
    }
    fn replay_custom(&self, payload: &Value) -> Result<(), Failure> {
        if let Some(h) = payload["history_hex"].as_array() {
            let inputs: Vec<Vec<u8>> = h.iter().map(|x| crate::runner::unhex(x.as_str().unwrap_or(""))).collect();
            let (r1, e1) = run_one(&inputs[0], Kind::Slice, None);
            judge(&r1, &e1, true).map_err(|e| Failure::new(format!("into_struct: {}", e)))?;
            if let (Ok(b), Some(i2)) = (r1, inputs.get(1)) {
                if !i2.is_empty() || true {
                    let (r2, e2) = run_one(i2, Kind::Slice, Some(b));
                    judge(&r2, &e2, false).map_err(|e| Failure::new(format!("extend_struct: {}", e)))?;
                }
            }
            return Ok(());
        }
        let input = crate::runner::unhex(payload["input_hex"].as_str().unwrap_or(""));
        let (_, _, _, body) = crate::fuzzglue::decode_bytes_input(&input);
        if crate::verdict::nesting_depth(body, false, true) > 200 {
            return Ok(());
        }
        check_default(body).map_err(Failure::new)
    }
    fn rule(&self) -> String {
        "byte strings decoded from tapes: byte-level mutations (overwrite, insert dictionary token, delete, duplicate, truncate, splice, swap, insert raw byte) of generated valid documents, raw bytes with tokens, nesting chains, tiny fragments; fed as into_struct(B1), extend_struct(B2), ... through Reader::from_reader(&[u8]), Reader::from_str (UTF-8 inputs) and BufReader capacities 1..4096, all with the default configuration. A second reader of the same kind over the same bytes is stepped independently; the first of {reader error, non-UTF-8 element name, attribute error, non-UTF-8 attribute key, non-UTF-8 text/CDATA} in stream order fixes the expected verdict (exact variant, Debug-equal inner error, position), else Ok / ParsingError for an element-less initial parse. A late-fault family puts each kind of fault (duplicate of the first or the last attribute, unquoted value, missing `=`, non-UTF-8 key, unterminated value, none) behind n attributes of a tag and behind n sibling elements, and a stray end tag, a missing end tag, non-UTF-8 text, a non-UTF-8 name and a truncation behind n siblings, n around 16, 32, 64, 128, 256, 300 and 1024, as parse and as extension. Small-scope exhaustive part: all histories parse(I1), extend(I2) over 834 inputs (up to three top-level fragments from nine, plus damaged pieces). Non-trivial = the reader produced three or more events before the end or the error; distinct by hash of the input bytes.".into()
    }
    fn assumptions(&self) -> Vec<String> {
        vec![
            "the position of a syntax error may be the reader's buffer_position() or error_position() at the time of the error".into(),
            "inputs nested deeper than 400 levels are skipped here (stack depth is C07's concern)".into(),
            "inputs are at most ~6 KB".into(),
        ]
    }
    fn describe(&self, tapes: &Tapes) -> Value {
        let (case, kind) = decode(tapes);
        json!({"inputs": case.inputs.iter().map(|b| show(b)).collect::<Vec<_>>(), "inputs_hex": case.inputs.iter().map(|b| crate::runner::hex(b)).collect::<Vec<_>>(), "reader": format!("{:?}", kind), "generator": case.kind})
    }
    fn health(&self, _tier: Tier) -> Vec<(&'static str, u64)> {
        vec![
            ("nontrivial", 20000),
            ("parse.clean", 1000),
            ("parse.syntax", 1000),
            ("parse.attr", 300),
            ("parse.utf8", 300),
            ("parse.clean.no_element", 300),
            ("extend.clean", 1000),
            ("extend.syntax", 1000),
            ("extend.attr", 100),
            ("extend.utf8", 100),
            ("extend.clean.no_element", 100),
        ]
    }
}
