//! C16 — hand-built element trees: stateful, model-based (ordered-map model), step-by-step.

use super::c04::well_formed;
use super::common::*;
use crate::refinf::{SAttr, SChild, Schema};
use crate::rendered::{build_tree, read_both};
use crate::runner::{hash_of, Failure, Property, Stats, Tapes, Tier};
use crate::sut::{Element, Necessity, Options};
use crate::tape::Tape;
use serde::{Deserialize, Serialize};
use serde_json::{json, Value};

pub struct C16;

#[derive(Clone, Debug, Serialize, Deserialize, PartialEq, Eq, Hash)]
pub enum Op {
    New { slot: usize, name: String, attrs: Vec<String> },
    /// attach a copy of tree `from` (or a fresh leaf when `from` is None) under `path` of tree `slot`
    AddChild { slot: usize, path: Vec<String>, from: Option<usize>, leaf: String },
    SetChildOptional { slot: usize, path: Vec<String>, name: String },
    /// the removed child (if any) is stored into `into` (if given)
    RemoveChild { slot: usize, path: Vec<String>, name: String, into: Option<usize> },
    MergeAttr { slot: usize, path: Vec<String>, list: Vec<(bool, String)> },
    SetMultiple { slot: usize, path: Vec<String> },
    SetText { slot: usize, path: Vec<String>, text: Option<String> },
    GetChild { slot: usize, path: Vec<String>, name: String },
    Render { slot: usize },
    /// add `count` fresh leaves n0..n(count-1) one by one (wide nodes: size thresholds)
    AddMany { slot: usize, path: Vec<String>, count: usize },
}

#[derive(Clone, Debug, PartialEq)]
struct MNode {
    name: String,
    text: Option<String>,
    multiple: bool,
    attrs: Vec<(bool, String)>, // (mandatory, name)
    children: Vec<(bool, MNode)>, // (optional, node) - ordered map keyed by node.name
}

impl MNode {
    fn new(name: &str, attrs: &[String]) -> MNode {
        MNode { name: name.to_string(), text: None, multiple: false, attrs: attrs.iter().map(|a| (true, a.clone())).collect(), children: vec![] }
    }
    fn at_mut(&mut self, path: &[String]) -> Option<&mut MNode> {
        let mut cur = self;
        for p in path {
            cur = cur.children.iter_mut().map(|c| &mut c.1).find(|c| c.name == *p)?;
        }
        Some(cur)
    }
    fn schema(&self) -> Schema {
        Schema {
            name: self.name.clone(),
            attrs: self.attrs.iter().map(|(m, n)| SAttr { name: n.clone(), optional: !m }).collect(),
            text: self.text.is_some(),
            children: self.children.iter().map(|(o, c)| SChild { optional: *o, multiple: c.multiple, schema: c.schema() }).collect(),
            occurrences: 1,
        }
    }
    fn size(&self) -> usize {
        1 + self.children.iter().map(|c| c.1.size()).sum::<usize>()
    }
}

fn at_mut<'a>(root: &'a mut Element<String>, path: &[String]) -> Option<&'a mut Element<String>> {
    let mut cur = root;
    for p in path {
        cur = cur.get_child_mut(p)?.inner_t_mut();
    }
    Some(cur)
}

/// C15's specification, on the model side
fn merge_spec(a: &[(bool, String)], b: &[(bool, String)]) -> Vec<(bool, String)> {
    let mut out: Vec<(bool, String)> = a.iter().map(|(m, x)| (*m && b.iter().any(|(m2, y)| y == x && *m2), x.clone())).collect();
    for (_, y) in b {
        if !out.iter().any(|(_, x)| x == y) {
            out.push((false, y.clone()));
        }
    }
    out
}

fn same(real: &Element<String>, m: &MNode, path: &str) -> Result<(), String> {
    let here = format!("{}/{}", path, m.name);
    if real.name != m.name {
        return Err(format!("{}: element is named `{}`", here, real.name));
    }
    if real.text != m.text {
        return Err(format!("{}: text is {:?}, model says {:?}", here, real.text, m.text));
    }
    if real.standalone() == m.multiple {
        return Err(format!("{}: standalone()={} but model says multiple={}", here, real.standalone(), m.multiple));
    }
    let names: Vec<&String> = real.children().iter().map(|c| &c.inner_t().name).collect();
    for (i, n) in names.iter().enumerate() {
        if names[i + 1..].contains(n) {
            return Err(format!("{}: two children are named `{}` (children: {:?})", here, n, names));
        }
    }
    if names.len() != m.children.len() {
        return Err(format!("{}: children are {:?}, model has {:?}", here, names, m.children.iter().map(|c| &c.1.name).collect::<Vec<_>>()));
    }
    for (opt, c) in &m.children {
        let r = real.get_child(&c.name).ok_or_else(|| format!("{}: get_child(`{}`) is None but the model has that child", here, c.name))?;
        if r.inner_t().name != c.name {
            return Err(format!("{}: get_child(`{}`) returned a child named `{}`", here, c.name, r.inner_t().name));
        }
        if matches!(r, Necessity::Optional(_)) != *opt {
            return Err(format!("{}: child `{}` is tagged {}, model says optional={}", here, c.name, if *opt { "Mandatory" } else { "Optional" }, opt));
        }
        same(r.inner_t(), c, &here)?;
    }
    Ok(())
}

struct World {
    real: Vec<Option<Element<String>>>,
    model: Vec<Option<MNode>>,
}

const MAX_NODES: usize = 60;
/// bound for trees widened by AddMany (one parent with up to 300 children: inline capacities, index widths)
const WIDE_NODES: usize = 700;

/// some position has two children whose names differ only in the namespace prefix (`ns:e` / `e`): both fields are bound
/// to one serde name, which the statements exclude for renderings (C01); the tree operations themselves are still compared
fn has_prefix_clash(m: &MNode) -> bool {
    let mut seen: Vec<&str> = Vec::new();
    for (_, c) in &m.children {
        let l = crate::model::local_of(&c.name);
        if seen.contains(&l) {
            return true;
        }
        seen.push(l);
    }
    m.children.iter().any(|(_, c)| has_prefix_clash(c))
}

fn render_check(real: &Element<String>, m: &MNode) -> Result<(), String> {
    let opts = Options::quick_xml_de();
    let src = real.to_serde_struct(&opts);
    let defs = read_both(&src).map_err(|e| format!("rendered output unreadable: {}\n{}", e, src))?;
    well_formed(&defs).map_err(|e| format!("rendered output is not well-formed (C04): {}\n{}", e, src))?;
    if has_prefix_clash(m) {
        return Ok(());
    }
    let tree = build_tree(&defs, &opts.attribute_prefix, &opts.text_identifier).map_err(|e| format!("rendered structs do not form a tree: {}\n{}", e, src))?;
    compare_schema(&m.schema(), &tree, "").map_err(|e| format!("rendered fields do not reflect the tree: {}\n{}", e, src))?;
    let expect = m.schema().count_struct_positions().max(1);
    if defs.len() != expect {
        return Err(format!("{} structs rendered, model has {} non-String positions\n{}", defs.len(), expect, src));
    }
    Ok(())
}

fn apply(w: &mut World, op: &Op, st: &mut Flags) -> Result<(), String> {
    match op {
        Op::New { slot, name, attrs } => {
            w.real[*slot] = Some(Element::new(name.clone(), attrs.clone()));
            w.model[*slot] = Some(MNode::new(name, attrs));
        }
        Op::AddChild { slot, path, from, leaf } => {
            let (sub_r, sub_m) = match from {
                Some(f) if *f != *slot => match (&w.real[*f], &w.model[*f]) {
                    (Some(r), Some(m)) => (r.clone(), m.clone()),
                    _ => (Element::new(leaf.clone(), vec![]), MNode::new(leaf, &[])),
                },
                _ => (Element::new(leaf.clone(), vec![]), MNode::new(leaf, &[])),
            };
            let total = w.model[*slot].as_ref().map(|m| m.size()).unwrap_or(0) + sub_m.size();
            // subtree copies are bounded tightly (they multiply), single leaves may go on in wide trees
            if (total > MAX_NODES && sub_m.size() > 1) || total > WIDE_NODES {
                return Ok(());
            }
            if let (Some(r), Some(m)) = (w.real[*slot].as_mut(), w.model[*slot].as_mut()) {
                if let (Some(rn), Some(mn)) = (at_mut(r, path), m.at_mut(path)) {
                    let present = mn.children.iter().position(|c| c.1.name == sub_m.name);
                    match present {
                        Some(i) => {
                            st.add_present = true;
                            if mn.children[i].0 {
                                st.add_after_optional = true;
                            }
                        }
                        None => {
                            if st.removed_names.contains(&sub_m.name) {
                                st.remove_then_add = true;
                            }
                            mn.children.push((false, sub_m));
                        }
                    }
                    rn.add_unique_child(sub_r);
                }
            }
        }
        Op::SetChildOptional { slot, path, name } => {
            if let (Some(r), Some(m)) = (w.real[*slot].as_mut(), w.model[*slot].as_mut()) {
                if let (Some(rn), Some(mn)) = (at_mut(r, path), m.at_mut(path)) {
                    if let Some(c) = mn.children.iter_mut().find(|c| c.1.name == *name) {
                        c.0 = true;
                        if !c.1.children.is_empty() {
                            st.optional_with_subtree = true;
                        }
                    }
                    rn.set_child_optional(name);
                }
            }
        }
        Op::RemoveChild { slot, path, name, into } => {
            let mut taken: Option<(Element<String>, MNode)> = None;
            if let (Some(r), Some(m)) = (w.real[*slot].as_mut(), w.model[*slot].as_mut()) {
                if let (Some(rn), Some(mn)) = (at_mut(r, path), m.at_mut(path)) {
                    let expect = mn.children.iter().position(|c| c.1.name == *name).map(|i| mn.children.remove(i));
                    let got = rn.remove_child(name);
                    match (expect, got) {
                        (None, None) => {}
                        (Some((opt, mc)), Some(g)) => {
                            st.removed_names.push(name.clone());
                            if matches!(g, Necessity::Optional(_)) != opt {
                                return Err(format!("remove_child(`{}`) returned a child tagged differently from the model (optional={})", name, opt));
                            }
                            let ge = g.into_inner_t();
                            same(&ge, &mc, "<removed>").map_err(|e| format!("remove_child(`{}`) returned a different subtree: {}", name, e))?;
                            taken = Some((ge, mc));
                        }
                        (None, Some(g)) => return Err(format!("remove_child(`{}`) returned `{}` although no child has that name", name, g.inner_t().name)),
                        (Some(_), None) => return Err(format!("remove_child(`{}`) returned None although the child exists", name)),
                    }
                }
            }
            if let (Some(i), Some((ge, mc))) = (into, taken) {
                if *i != *slot {
                    w.real[*i] = Some(ge);
                    w.model[*i] = Some(mc);
                }
            }
        }
        Op::MergeAttr { slot, path, list } => {
            if let (Some(r), Some(m)) = (w.real[*slot].as_mut(), w.model[*slot].as_mut()) {
                if let (Some(rn), Some(mn)) = (at_mut(r, path), m.at_mut(path)) {
                    if !mn.children.is_empty() {
                        st.merge_after_add = true;
                    }
                    mn.attrs = merge_spec(&mn.attrs, list);
                    let nec: Vec<Necessity<String>> = list.iter().map(|(m, n)| if *m { Necessity::Mandatory(n.clone()) } else { Necessity::Optional(n.clone()) }).collect();
                    let taken = std::mem::replace(rn, Element::new(String::from("placeholder"), vec![]));
                    *rn = taken.merge_attr(nec);
                }
            }
        }
        Op::SetMultiple { slot, path } => {
            if let (Some(r), Some(m)) = (w.real[*slot].as_mut(), w.model[*slot].as_mut()) {
                if let (Some(rn), Some(mn)) = (at_mut(r, path), m.at_mut(path)) {
                    mn.multiple = true;
                    rn.set_multiple();
                }
            }
        }
        Op::SetText { slot, path, text } => {
            if let (Some(r), Some(m)) = (w.real[*slot].as_mut(), w.model[*slot].as_mut()) {
                if let (Some(rn), Some(mn)) = (at_mut(r, path), m.at_mut(path)) {
                    mn.text = text.clone();
                    rn.text = text.clone();
                }
            }
        }
        Op::GetChild { slot, path, name } => {
            if let (Some(r), Some(m)) = (w.real[*slot].as_mut(), w.model[*slot].as_mut()) {
                if let (Some(rn), Some(mn)) = (at_mut(r, path), m.at_mut(path)) {
                    let expect = mn.children.iter().find(|c| c.1.name == *name);
                    match (expect, rn.get_child(name)) {
                        (None, None) => {}
                        (Some((_, mc)), Some(g)) => same(g.inner_t(), mc, "<get_child>").map_err(|e| format!("get_child(`{}`): {}", name, e))?,
                        (None, Some(g)) => return Err(format!("get_child(`{}`) returned `{}` although no child has that name", name, g.inner_t().name)),
                        (Some(_), None) => return Err(format!("get_child(`{}`) is None although the child exists", name)),
                    }
                }
            }
        }
        Op::Render { slot } => {
            if let (Some(r), Some(m)) = (w.real[*slot].as_ref(), w.model[*slot].as_ref()) {
                st.renders += 1;
                if has_prefix_clash(m) {
                    st.prefix_clash = true;
                }
                render_check(r, m)?;
            }
        }
        Op::AddMany { slot, path, count } => {
            let total = w.model[*slot].as_ref().map(|m| m.size()).unwrap_or(0) + count;
            if total > WIDE_NODES {
                return Ok(());
            }
            if let (Some(r), Some(m)) = (w.real[*slot].as_mut(), w.model[*slot].as_mut()) {
                if let (Some(rn), Some(mn)) = (at_mut(r, path), m.at_mut(path)) {
                    for i in 0..*count {
                        let name = format!("n{}", i);
                        if !mn.children.iter().any(|c| c.1.name == name) {
                            mn.children.push((false, MNode::new(&name, &[])));
                        }
                        rn.add_unique_child(Element::new(name, vec![]));
                    }
                    if mn.children.len() > 16 {
                        st.wide = true;
                    }
                }
            }
        }
    }
    // invariant after every step: every tree equals its model
    for (r, m) in w.real.iter().zip(w.model.iter()) {
        if let (Some(r), Some(m)) = (r, m) {
            same(r, m, "")?;
        }
    }
    Ok(())
}

#[derive(Default)]
struct Flags {
    add_present: bool,
    add_after_optional: bool,
    remove_then_add: bool,
    merge_after_add: bool,
    optional_with_subtree: bool,
    removed_names: Vec<String>,
    renders: u32,
    wide: bool,
    prefix_clash: bool,
}

fn run_ops(ops: &[Op], slots: usize) -> (Result<(), String>, Flags) {
    let mut w = World { real: (0..slots).map(|_| None).collect(), model: (0..slots).map(|_| None).collect() };
    let mut fl = Flags::default();
    for (i, op) in ops.iter().enumerate() {
        if let Err(e) = apply(&mut w, op, &mut fl) {
            return (Err(format!("after step {} ({:?}): {}", i + 1, op, e)), fl);
        }
    }
    // final rendering of every tree
    for s in 0..slots {
        if let Err(e) = apply(&mut w, &Op::Render { slot: s }, &mut fl) {
            return (Err(format!("final rendering of tree {}: {}", s, e)), fl);
        }
    }
    (Ok(()), fl)
}

const NAMES: &[&str] = &["a", "b", "c", "d", "type", "ns:e", "e", "p:a", "vec", "vec2", "a2", "año:f"];
const ATTRS: &[&str] = &["id", "k", "type", "x:y", "xmlns:n", "a", "ñ:w"];
const TEXTS: &[&str] = &["t", "", " "];

/// paths and names are decoded against the current model so that most operations hit existing nodes
fn decode_path(t: &mut Tape, m: Option<&MNode>) -> Vec<String> {
    let mut path = Vec::new();
    let mut cur = match m {
        Some(m) => m,
        None => return path,
    };
    for _ in 0..4 {
        if cur.children.is_empty() || t.chance(110) {
            break;
        }
        let i = t.choose(cur.children.len());
        path.push(cur.children[i].1.name.clone());
        cur = &cur.children[i].1;
    }
    if t.chance(12) {
        // occasionally a path that does not exist
        path.push(t.pick(NAMES).to_string());
    }
    path
}

fn decode_name(t: &mut Tape, m: Option<&MNode>, path: &[String]) -> String {
    if let Some(m) = m {
        let mut cur = m;
        let mut ok = true;
        for p in path {
            match cur.children.iter().find(|c| c.1.name == *p) {
                Some(c) => cur = &c.1,
                None => {
                    ok = false;
                    break;
                }
            }
        }
        if ok && !cur.children.is_empty() && t.chance(170) {
            return cur.children[t.choose(cur.children.len())].1.name.clone();
        }
    }
    t.pick(NAMES).to_string()
}

fn decode_attr_list(t: &mut Tape, tagged: bool) -> Vec<(bool, String)> {
    let n = t.choose(4);
    let mut rest: Vec<&str> = ATTRS.to_vec();
    let mut out = Vec::new();
    for _ in 0..n {
        let i = t.choose(rest.len());
        out.push((if tagged { t.chance(128) } else { true }, rest.remove(i).to_string()));
    }
    out
}

/// decode and execute in one pass (the decoder looks at the model state)
fn run_tape(tape: &[u8]) -> (Vec<Op>, Result<(), String>, Flags) {
    let mut t = Tape::new(tape);
    let slots = 3;
    let mut w = World { real: (0..slots).map(|_| None).collect(), model: (0..slots).map(|_| None).collect() };
    let mut fl = Flags::default();
    let mut ops: Vec<Op> = Vec::new();
    let first = Op::New { slot: 0, name: "r".into(), attrs: decode_attr_list(&mut t, false).into_iter().map(|x| x.1).collect() };
    let n = t.choose(41);
    let mut pending = Some(first);
    let mut i = 0;
    loop {
        let op = match pending.take() {
            Some(op) => op,
            None => {
                if i >= n {
                    break;
                }
                i += 1;
                let slot = t.weighted(&[6, 2, 1]);
                let m = w.model[slot].as_ref();
                match t.weighted(&[6, 5, 3, 3, 2, 2, 2, 1, 1, 1]) {
                    0 => {
                        let path = decode_path(&mut t, m);
                        let from = if t.chance(60) { Some(t.choose(3)) } else { None };
                        // a fresh leaf: mostly a new name, sometimes one that is already present
                        let leaf = if t.chance(90) { decode_name(&mut t, m, &path) } else { t.pick(NAMES).to_string() };
                        Op::AddChild { slot, path, from, leaf }
                    }
                    1 => {
                        let path = decode_path(&mut t, m);
                        let name = decode_name(&mut t, m, &path);
                        Op::SetChildOptional { slot, path, name }
                    }
                    2 => {
                        let path = decode_path(&mut t, m);
                        let name = decode_name(&mut t, m, &path);
                        Op::RemoveChild { slot, path, name, into: if t.chance(100) { Some(t.choose(3)) } else { None } }
                    }
                    3 => Op::MergeAttr { slot, path: decode_path(&mut t, m), list: decode_attr_list(&mut t, true) },
                    4 => Op::SetMultiple { slot, path: decode_path(&mut t, m) },
                    5 => Op::SetText { slot, path: decode_path(&mut t, m), text: if t.chance(60) { None } else { Some(t.pick(TEXTS).to_string()) } },
                    6 => {
                        let path = decode_path(&mut t, m);
                        let name = decode_name(&mut t, m, &path);
                        Op::GetChild { slot, path, name }
                    }
                    7 => Op::New { slot, name: t.pick(NAMES).to_string(), attrs: decode_attr_list(&mut t, false).into_iter().map(|x| x.1).collect() },
                    8 => Op::Render { slot },
                    _ => Op::AddMany { slot, path: decode_path(&mut t, m), count: *t.pick(&[3usize, 9, 17, 33, 40, 65, 129, 257, 300]) },
                }
            }
        };
        ops.push(op.clone());
        if let Err(e) = apply(&mut w, &op, &mut fl) {
            return (ops.clone(), Err(format!("after step {} ({:?}): {}", ops.len(), op, e)), fl);
        }
    }
    for s in 0..slots {
        if let Err(e) = apply(&mut w, &Op::Render { slot: s }, &mut fl) {
            return (ops, Err(format!("final rendering of tree {}: {}", s, e)), fl);
        }
    }
    (ops, Ok(()), fl)
}

/// finite op universe for the exhaustive part: one tree rooted r, names {a,b}, paths [] and [a]
fn small_universe() -> Vec<Op> {
    let paths: Vec<Vec<String>> = vec![vec![], vec!["a".to_string()]];
    let names = ["a", "b"];
    let mut u = Vec::new();
    for p in &paths {
        for n in names {
            u.push(Op::AddChild { slot: 0, path: p.clone(), from: None, leaf: n.to_string() });
            u.push(Op::SetChildOptional { slot: 0, path: p.clone(), name: n.to_string() });
            u.push(Op::RemoveChild { slot: 0, path: p.clone(), name: n.to_string(), into: None });
        }
        for l in [vec![(true, "x".to_string())], vec![(false, "x".to_string())], vec![(true, "y".to_string())]] {
            u.push(Op::MergeAttr { slot: 0, path: p.clone(), list: l });
        }
        u.push(Op::SetMultiple { slot: 0, path: p.clone() });
        u.push(Op::SetText { slot: 0, path: p.clone(), text: Some("t".to_string()) });
        u.push(Op::SetText { slot: 0, path: p.clone(), text: None });
    }
    u
}

fn fail(e: String, ops: &[Op]) -> Failure {
    Failure::new(e).with_detail(json!({"operations": ops}))
}


/// hand-built shapes beyond what random sequences reach: chains of depth d (distinct names / one name; every third
/// child marked optional, every fourth marked multiple, attribute and text at the bottom) and parents with w children
/// (every second one optional, one removed and re-added), compared with the model and rendered
fn deep_and_wide(d: usize, same_name: bool) -> Result<(), String> {
    let name_of = |i: usize| if same_name { "a".to_string() } else { format!("l{}", i) };
    let mut real: Element<String> = Element::new(name_of(d), vec!["id".to_string()]);
    real.text = Some("t".to_string());
    let mut model = MNode::new(&name_of(d), &["id".to_string()]);
    model.text = Some("t".to_string());
    for lvl in (1..d).rev() {
        let mut p: Element<String> = Element::new(name_of(lvl), vec![]);
        let mut mp = MNode::new(&name_of(lvl), &[]);
        let child_name = real.name.clone();
        if lvl % 4 == 0 {
            real.set_multiple();
            model.multiple = true;
        }
        p.add_unique_child(real);
        let optional = lvl % 3 == 0;
        if optional {
            p.set_child_optional(&child_name);
        }
        mp.children.push((optional, model));
        real = p;
        model = mp;
    }
    same(&real, &model, "").map_err(|e| format!("chain of depth {}: {}", d, e))?;
    render_check(&real, &model).map_err(|e| format!("chain of depth {}: {}", d, e.lines().next().unwrap_or("")))?;
    // a wide parent
    let w = d;
    let mut real: Element<String> = Element::new("r".to_string(), vec![]);
    let mut model = MNode::new("r", &[]);
    for i in 0..w {
        let n = format!("k{}", i);
        real.add_unique_child(Element::new(n.clone(), vec!["id".to_string()]));
        model.children.push((false, MNode::new(&n, &["id".to_string()])));
        if i % 2 == 1 {
            real.set_child_optional(&n);
            model.children.last_mut().unwrap().0 = true;
        }
    }
    // remove the first child and add it again: it must be present exactly once
    if let Some(c) = real.remove_child(&"k0".to_string()) {
        real.add_unique_child(c.into_inner_t());
    }
    same(&real, &model, "").map_err(|e| format!("parent with {} children: {}", w, e))?;
    render_check(&real, &model).map_err(|e| format!("parent with {} children: {}", w, e.lines().next().unwrap_or("")))?;
    Ok(())
}

impl Property for C16 {
    fn id(&self) -> &'static str {
        "C16"
    }
    fn tape_sizes(&self) -> (usize, usize, usize) {
        (400, 0, 0)
    }
    fn cases(&self, tier: Tier) -> u64 {
        match tier {
            Tier::Quick => 60_000,
            Tier::Thorough => 3_000_000,
        }
    }
    fn check(&self, tapes: &Tapes, st: &mut Stats) -> Result<(), Failure> {
        let (ops, res, fl) = run_tape(&tapes.a);
        let nt = fl.add_after_optional || fl.remove_then_add || fl.merge_after_add;
        if nt {
            st.nontrivial(hash_of(&ops));
        }
        let mut flag = |n: &str, b: bool| {
            if b {
                st.count(n)
            }
        };
        flag("add_of_present_name", fl.add_present);
        flag("add_after_mark_optional", fl.add_after_optional);
        flag("remove_then_add", fl.remove_then_add);
        flag("merge_after_add", fl.merge_after_add);
        flag("mark_optional_with_subtree", fl.optional_with_subtree);
        flag("node_with_more_than_16_children", fl.wide);
        flag("siblings_differing_only_in_prefix", fl.prefix_clash);
        st.add("renderings_checked", fl.renders as u64);
        st.add("operations", ops.len() as u64);
        st.sample(|| json!({"operations": ops}));
        res.map_err(|e| fail(e, &ops))
    }
    fn extra(&self, tier: Tier, _seed: u64, st: &mut Stats) -> Result<(), (Failure, Value)> {
        let maxlen = match tier {
            Tier::Quick => 4,
            Tier::Thorough => 5,
        };
        let u = small_universe();
        let first = Op::New { slot: 0, name: "r".into(), attrs: vec!["x".into()] };
        let n = u.len();
        let threads = 16usize;
        let results: Vec<(u64, u64, Option<(String, Vec<Op>)>)> = std::thread::scope(|s| {
            let hs: Vec<_> = (0..threads)
                .map(|ti| {
                    let u = &u;
                    let first = &first;
                    s.spawn(move || {
                        let mut evals = 0u64;
                        let mut nts = 0u64;
                        for len in 0..=maxlen {
                            let total = n.pow(len as u32);
                            let mut idx = ti;
                            while idx < total {
                                let mut ops = vec![first.clone()];
                                let mut x = idx;
                                for _ in 0..len {
                                    ops.push(u[x % n].clone());
                                    x /= n;
                                }
                                let (res, fl) = run_ops(&ops, 1);
                                evals += 1;
                                if fl.add_after_optional || fl.remove_then_add || fl.merge_after_add {
                                    nts += 1;
                                }
                                if let Err(e) = res {
                                    return (evals, nts, Some((e, ops)));
                                }
                                idx += threads;
                            }
                        }
                        (evals, nts, None)
                    })
                })
                .collect();
            hs.into_iter().map(|h| h.join().expect("join")).collect()
        });
        let mut firstf = None;
        for (e, nt, f) in results {
            st.evaluations += e;
            st.add("exhaustive.sequences", e);
            st.add("exhaustive.nontrivial", nt);
            st.nontrivial_enumerated += nt;
            if firstf.is_none() {
                firstf = f;
            }
        }
        // deep and wide hand-built trees
        if firstf.is_none() {
            for &d in super::smallscope::BIG_SIZES {
                for same_name in [false, true] {
                    st.evaluations += 1;
                    st.count("deep_and_wide_trees");
                    if let Err(e) = deep_and_wide(d, same_name) {
                        return Err((Failure::new(format!("hand-built tree: {}", e)), json!({"deep_and_wide": d, "same_name": same_name})));
                    }
                }
            }
        }
        st.add("exhaustive.max_length", maxlen as u64);
        st.add("exhaustive.op_universe", n as u64);
        match firstf {
            Some((e, ops)) => {
                let payload = json!({"operations": ops});
                Err((fail(e, &ops), payload))
            }
            None => Ok(()),
        }
    }
    fn replay_custom(&self, payload: &Value) -> Result<(), Failure> {
        if let Some(d) = payload["deep_and_wide"].as_u64() {
            return deep_and_wide(d as usize, payload["same_name"].as_bool().unwrap_or(false)).map_err(Failure::new);
        }
        let ops: Vec<Op> = serde_json::from_value(payload["operations"].clone()).map_err(|e| Failure::new(format!("bad payload: {}", e)))?;
        run_ops(&ops, 3).0.map_err(|e| fail(e, &ops))
    }
    fn rule(&self) -> String {
        "fixed: hand-built chains of depth d and parents with d children for d around 16..300 (every third child optional, every fourth multiple, attribute and text at the bottom, one child removed and re-added); exhaustive: every sequence of up to 4 (quick) / 5 (thorough) operations from a universe of 24 (add/mark-optional/remove a or b at the root or under a, three attribute merges, mark-multiple, set/clear text at both nodes) on a tree rooted r; random: tape-decoded sequences of up to 40 operations over three tree slots (subtrees are copied between slots, removed children can be re-attached), names a,b,c,d,type,ns:e,e,p:a,vec,vec2,a2 (literal names that equal a suffixed struct name; and so that siblings may differ only in the namespace prefix; renderings of such trees are checked for well-formedness only), attributes id,k,type,x:y,xmlns:n,a. After every operation every tree is compared with an ordered-map model (unique child names, lookup/removal by name, no-op add, subtree kept by mark-optional); renderings (intermediate and final) must satisfy the C04 oracle and reflect exactly the model's children, attributes, optionality, multiplicity and text. Non-trivial = the sequence contains add-after-mark-optional, remove-then-add or merge-after-add on one node; distinct by hash of the sequence (random) or by enumeration (exhaustive).".into()
    }
    fn assumptions(&self) -> Vec<String> {
        vec![
            "attribute lists passed to Element::new / merge_attr are duplicate-free (as C15 requires)".into(),
            "the internal child order is not specified by the statement and is not compared".into(),
            "count()/increment() are parsing internals and are not part of the operation set".into(),
        ]
    }
    fn describe(&self, tapes: &Tapes) -> Value {
        json!({"operations": run_tape(&tapes.a).0})
    }
    fn exhaustive(&self) -> bool {
        true
    }
    fn health(&self, _tier: Tier) -> Vec<(&'static str, u64)> {
        vec![("nontrivial", 5000), ("add_after_mark_optional", 1000), ("remove_then_add", 1000), ("merge_after_add", 1000), ("mark_optional_with_subtree", 1000), ("exhaustive.nontrivial", 1000)]
    }
}
