//! C03 — Optional / Vec / text inference is exact.

use super::common::*;
use crate::model::Domain;
use crate::refinf::infer_docs;
use crate::runner::{hash_of, Failure, Property, Stats, Tapes, Tier};
use crate::sut::Options;
use crate::xmlser::SurfaceCfg;
use serde_json::{json, Value};

pub struct C03;

impl Property for C03 {
    fn id(&self) -> &'static str {
        "C03"
    }
    fn tape_sizes(&self) -> (usize, usize, usize) {
        (900, 600, 0)
    }
    fn cases(&self, tier: Tier) -> u64 {
        match tier {
            Tier::Quick => 60_000,
            Tier::Thorough => 5_000_000,
        }
    }
    fn check(&self, tapes: &Tapes, st: &mut Stats) -> Result<(), Failure> {
        let p = prepare(tapes, &Domain::general(), &SurfaceCfg::full());
        let schema = infer_docs(&p.case.docs);
        let cl = classify(&p.case, &schema);
        record_classes(&cl, &p, st);
        if cl.optional_decisions + cl.vec_decisions + cl.optional_attrs > 0 && cl.positions_multi_occ > 0 {
            st.nontrivial(hash_of(&p.case.docs));
        }
        st.sample(|| describe_case(&p));
        let root = parse_docs(&p.bytes)?;
        let detail = |src: &str| json!({"case": describe_case(&p), "rendered": src, "reference": schema});
        let (src, defs, tree) = render_tree(&root, &Options::quick_xml_de())?;
        compare_schema(&schema, &tree, "").map_err(|e| Failure::new(format!("rendered schema differs from the reference inference: {}", e)).with_detail(detail(&src)))?;
        let expect_structs = schema.count_struct_positions().max(1);
        if defs.len() != expect_structs {
            return Err(Failure::new(format!("{} struct items rendered, {} non-String positions in the documents", defs.len(), expect_structs)).with_detail(detail(&src)));
        }
        compare_element(&schema, &root, "")
            .map_err(|e| Failure::new(format!("returned Element tree differs from the reference inference: {}", e)).with_detail(detail(&src)))?;
        Ok(())
    }
    fn extra(&self, tier: Tier, seed: u64, st: &mut Stats) -> Result<(), (Failure, Value)> {
        if tier == Tier::Thorough {
            let runs = std::env::var("XSGV_FUZZ_RUNS").ok().and_then(|s| s.parse().ok()).unwrap_or(125_000u64);
            let seeds: Vec<Vec<u8>> = crate::runner::gen_tapes(self, seed ^ 0x7a9e, 200)
                .into_iter()
                .map(|t| {
                    let n = t.a.len().min(1023);
                    let mut v = vec![(n >> 8) as u8, (n & 255) as u8];
                    v.extend_from_slice(&t.a[..n]);
                    v.extend_from_slice(&t.b);
                    v
                })
                .collect();
            let c = crate::fuzzrun::Campaign { target: "fz_tape", runs_per_worker: runs, workers: 16, seed: seed ^ 0x03, max_len: 2048, seeds };
            crate::fuzzrun::campaign_for("C03", &c, st)?;
        }
        Ok(())
    }
    fn replay_custom(&self, payload: &Value) -> Result<(), Failure> {
        match crate::fuzzrun::replay(payload) {
            // the tape target runs the oracles of several properties; only this property's verdict counts here
            Some(Err(f)) if f.msg.starts_with("C03:") => Err(f),
            _ => Ok(()),
        }
    }
    fn rule(&self) -> String {
        "tape-decoded sequences of 1..5 well-formed documents over small per-case name pools (all name classes, 1 in 8 wide), full surface variation; compared with an independent reference inference over the generator's DOM at two observation points (rendered structs, returned Element tree). Non-trivial = the reference schema holds at least one Optional or Vec decision and some position has two or more occurrences; distinct by hash of the structural documents.".into()
    }
    fn assumptions(&self) -> Vec<String> {
        vec![
            "domain as C01: no two element names and no two attribute names of a case are equal after prefix removal".into(),
            "a text node is any Text/CDATA node of the document, whitespace-only text and empty CDATA included (default reader, no trimming)".into(),
            "documents up to ~40 nodes (60 in wide mode), depth <= 6, k <= 5".into(),
        ]
    }
    fn describe(&self, tapes: &Tapes) -> Value {
        describe_case(&prepare(tapes, &Domain::general(), &SurfaceCfg::full()))
    }
    fn health(&self, _tier: Tier) -> Vec<(&'static str, u64)> {
        vec![("nontrivial", 5000), ("optional_child_reseen", 500), ("vec_only_in_later_document", 500), ("k>=3", 1000), ("repetition_at_depth_3+", 500), ("empty_cdata_only_text_position", 50), ("blank_only_text_position", 200), ("wide_mode", 500)]
    }
}
