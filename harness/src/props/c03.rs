//! C03 — Optional / Vec / text inference is exact.

use super::common::*;
use crate::model::Domain;
use crate::refinf::infer_docs;
use crate::runner::{hash_of, Failure, Property, Stats, Tapes, Tier};
use crate::sut::Options;
use crate::xmlser::SurfaceCfg;
use serde_json::{json, Value};

pub struct C03;

/// oracle of the small-scope search: Ok(non-trivial?) or the discrepancy
pub fn small_oracle(docs: &[&crate::model::Node], bytes: &[Vec<u8>]) -> Result<bool, String> {
    let occs: Vec<&crate::model::Node> = docs.to_vec();
    let schema = crate::refinf::infer(&docs[0].name, &occs);
    let root = crate::sut::parse_seq(bytes).map_err(|(i, e)| format!("document #{} rejected: {}", i + 1, e))?;
    let src = root.to_serde_struct(&Options::quick_xml_de());
    let defs = crate::rendered::read_lines(&src).map_err(|e| format!("output unreadable: {}\n{}", e, src))?;
    let tree = crate::rendered::build_tree(&defs, "@", "$text").map_err(|e| format!("not a tree: {}\n{}", e, src))?;
    compare_schema(&schema, &tree, "").map_err(|e| format!("rendered schema differs from the reference inference: {}\n{}", e, src))?;
    if defs.len() != schema.count_struct_positions().max(1) {
        return Err(format!("{} struct items rendered, {} non-String positions\n{}", defs.len(), schema.count_struct_positions().max(1), src));
    }
    compare_element(&schema, &root, "").map_err(|e| format!("returned Element tree differs from the reference inference: {}", e))?;
    fn decided(s: &crate::refinf::Schema) -> bool {
        s.attrs.iter().any(|a| a.optional) || s.children.iter().any(|c| c.optional || c.multiple || decided(&c.schema))
    }
    Ok(decided(&schema))
}

/// replay of a small-scope counterexample given as canonical documents
fn replay_small(bytes: &[Vec<u8>]) -> Result<(), String> {
    // rebuild the DOM from the canonical text with an independent mini parser (names r/a/b, attribute k, text x)
    fn parse(s: &[u8], i: &mut usize) -> Option<crate::model::Node> {
        if s.get(*i) != Some(&b'<') {
            return None;
        }
        *i += 1;
        let st = *i;
        while *i < s.len() && (s[*i] as char).is_ascii_alphanumeric() {
            *i += 1;
        }
        let name = String::from_utf8_lossy(&s[st..*i]).to_string();
        let mut attrs = vec![];
        while s.get(*i) == Some(&b' ') {
            *i += 1;
            let a = *i;
            while s[*i] != b'=' {
                *i += 1;
            }
            attrs.push(String::from_utf8_lossy(&s[a..*i]).to_string());
            *i += 2;
            while s[*i] != b'"' {
                *i += 1;
            }
            *i += 1;
        }
        let mut items = vec![];
        if s.get(*i) == Some(&b'/') {
            *i += 2;
            return Some(crate::model::Node { name, attrs, items });
        }
        *i += 1;
        loop {
            if s.get(*i) == Some(&b'<') && s.get(*i + 1) == Some(&b'/') {
                while s[*i] != b'>' {
                    *i += 1;
                }
                *i += 1;
                break;
            }
            if s.get(*i) == Some(&b'<') {
                items.push(crate::model::Item::Child(parse(s, i)?));
            } else if *i < s.len() {
                items.push(crate::model::Item::Chars { blank: s[*i] == b' ' });
                *i += 1;
            } else {
                return None;
            }
        }
        Some(crate::model::Node { name, attrs, items })
    }
    let docs: Vec<crate::model::Node> = bytes.iter().filter_map(|b| parse(b, &mut 0)).collect();
    if docs.len() != bytes.len() || docs.is_empty() {
        return Err("cannot rebuild the documents of the replay file".into());
    }
    let refs: Vec<&crate::model::Node> = docs.iter().collect();
    small_oracle(&refs, bytes).map(|_| ())
}

impl Property for C03 {
    fn id(&self) -> &'static str {
        "C03"
    }
    fn tape_sizes(&self) -> (usize, usize, usize) {
        (900, 600, 0)
    }
    fn cases(&self, tier: Tier) -> u64 {
        match tier {
            Tier::Quick => 60_000,
            Tier::Thorough => 5_000_000,
        }
    }
    fn check(&self, tapes: &Tapes, st: &mut Stats) -> Result<(), Failure> {
        let p = prepare(tapes, &Domain::general(), &SurfaceCfg::full());
        let schema = infer_docs(&p.case.docs);
        let cl = classify(&p.case, &schema);
        record_classes(&cl, &p, st);
        if cl.optional_decisions + cl.vec_decisions + cl.optional_attrs > 0 && cl.positions_multi_occ > 0 {
            st.nontrivial(hash_of(&p.case.docs));
        }
        st.sample(|| describe_case(&p));
        let root = parse_docs(&p.bytes)?;
        let detail = |src: &str| json!({"case": describe_case(&p), "rendered": src, "reference": schema});
        let (src, defs, tree) = render_tree(&root, &Options::quick_xml_de())?;
        compare_schema(&schema, &tree, "").map_err(|e| Failure::new(format!("rendered schema differs from the reference inference: {}", e)).with_detail(detail(&src)))?;
        let expect_structs = schema.count_struct_positions().max(1);
        if defs.len() != expect_structs {
            return Err(Failure::new(format!("{} struct items rendered, {} non-String positions in the documents", defs.len(), expect_structs)).with_detail(detail(&src)));
        }
        compare_element(&schema, &root, "")
            .map_err(|e| Failure::new(format!("returned Element tree differs from the reference inference: {}", e)).with_detail(detail(&src)))?;
        Ok(())
    }
    fn extra(&self, tier: Tier, seed: u64, st: &mut Stats) -> Result<(), (Failure, Value)> {
        // small-scope exhaustive part
        let scopes: &[(usize, usize)] = match tier {
            Tier::Quick => &[(3, 2), (2, 3)],
            Tier::Thorough => &[(4, 2), (3, 3), (2, 4)],
        };
        for (max_nodes, arity) in scopes {
            let (evals, nts, fail) = super::smallscope::run_tuples(*max_nodes, *arity, small_oracle);
            st.evaluations += evals;
            st.nontrivial_enumerated += nts;
            st.add(&format!("exhaustive.nodes<={}.sequences_of_{}", max_nodes, arity), evals);
            st.add("exhaustive.nontrivial", nts);
            if let Some((e, docs)) = fail {
                return Err((Failure::new(format!("small-scope exhaustive search: {}", e)).with_detail(json!({"documents": docs})), json!({"small_scope_documents": docs})));
            }
        }
        // attribute-list family: every triple of occurrences of <p> whose attribute lists are ordered subsets (<= 2) of
        // names that concatenate to each other (a, b, ab, ba), in one document and spread over documents
        {
            let names = ["a", "b", "ab", "ba"];
            let mut lists: Vec<Vec<String>> = vec![vec![]];
            for x in names {
                lists.push(vec![x.to_string()]);
                for y in names {
                    if x != y {
                        lists.push(vec![x.to_string(), y.to_string()]);
                    }
                }
            }
            let p = |attrs: &Vec<String>| crate::model::Node { name: "p".to_string(), attrs: attrs.clone(), items: vec![] };
            for l1 in &lists {
                for l2 in &lists {
                    for l3 in &lists {
                        let one = vec![crate::model::Node { name: "r".into(), attrs: vec![], items: vec![crate::model::Item::Child(p(l1)), crate::model::Item::Child(p(l2)), crate::model::Item::Child(p(l3))] }];
                        let three: Vec<crate::model::Node> = [l1, l2, l3].iter().map(|l| crate::model::Node { name: "p".into(), attrs: (*l).clone(), items: vec![] }).collect();
                        for docs in [one, three] {
                            let bytes: Vec<Vec<u8>> = docs.iter().map(|d| crate::xmlser::canonical(d).into_bytes()).collect();
                            let refs: Vec<&crate::model::Node> = docs.iter().collect();
                            st.evaluations += 1;
                            st.nontrivial_enumerated += 1;
                            st.count("attribute_list_family.cases");
                            let name = refs[0].name.clone();
                            let schema = crate::refinf::infer(&name, &refs);
                            let res = (|| -> Result<(), String> {
                                let root = crate::sut::parse_seq(&bytes).map_err(|(i, e)| format!("document #{} rejected: {}", i + 1, e))?;
                                let src = root.to_serde_struct(&Options::quick_xml_de());
                                let defs = crate::rendered::read_lines(&src).map_err(|e| format!("output unreadable: {}", e))?;
                                let tree = crate::rendered::build_tree(&defs, "@", "$text").map_err(|e| format!("not a tree: {}", e))?;
                                compare_schema(&schema, &tree, "").map_err(|e| format!("{}\n{}", e, src))
                            })();
                            if let Err(e) = res {
                                let docs_s: Vec<String> = bytes.iter().map(|b| String::from_utf8_lossy(b).to_string()).collect();
                                return Err((Failure::new(format!("attribute-list family: {}", e)).with_detail(json!({"documents": docs_s})), json!({"small_scope_documents": docs_s})));
                            }
                        }
                    }
                }
            }
        }
        // families beyond the small scope (sizes around plausible limits: windows, inline capacities, two-digit suffixes)
        {
            let (n, fail) = super::smallscope::run_big_families(small_oracle);
            st.evaluations += n;
            st.nontrivial_enumerated += n;
            st.add("big_families", n);
            if let Some((label, e, docs)) = fail {
                let first = e.lines().next().unwrap_or("").to_string();
                return Err((Failure::new(format!("family `{}`: {}", label, first)).with_detail(json!({"documents": docs, "message": e})), json!({"big_family": label})));
            }
        }
        // counter / size thresholds: a child repeated n times inside one parent occurrence, n parent occurrences
        let ns: &[usize] = match tier {
            Tier::Quick => &[2, 3, 15, 16, 17, 31, 32, 33, 63, 64, 65, 127, 128, 129, 254, 255, 256, 257, 258, 511, 512, 513, 1023, 1024, 1025, 65535, 65536, 65537],
            Tier::Thorough => &[2, 3, 15, 16, 17, 31, 32, 33, 63, 64, 65, 127, 128, 129, 254, 255, 256, 257, 258, 511, 512, 513, 1023, 1024, 1025, 4095, 4096, 4097, 65535, 65536, 65537],
        };
        for n in ns {
            for docs in super::smallscope::threshold_family(*n) {
                let bytes: Vec<Vec<u8>> = docs.iter().map(|d| crate::xmlser::canonical(d).into_bytes()).collect();
                let refs: Vec<&crate::model::Node> = docs.iter().collect();
                st.evaluations += 1;
                st.nontrivial_enumerated += 1;
                st.count("threshold_family.cases");
                let sorted_too = || -> Result<(), String> {
                    // wide nodes: the same comparison on the sort-by-name rendering (sorting code paths change with size)
                    let schema = crate::refinf::infer("r", &refs);
                    let root = crate::sut::parse_seq(&bytes).map_err(|(i, e)| format!("document #{} rejected: {}", i + 1, e))?;
                    let src = root.to_serde_struct(&crate::sut::opts_quick(true, ""));
                    let defs = crate::rendered::read_lines(&src).map_err(|e| format!("sorted output unreadable: {}", e))?;
                    let tree = crate::rendered::build_tree(&defs, "@", "$text").map_err(|e| format!("sorted output is not a tree: {}", e))?;
                    compare_schema(&schema, &tree, "").map_err(|e| format!("sorted rendering differs from the reference inference: {}", e))
                };
                if let Err(e) = small_oracle(&refs, &bytes).and_then(|_| sorted_too()) {
                    let short: Vec<String> = bytes.iter().map(|b| { let s = String::from_utf8_lossy(b); if s.len() > 160 { format!("{}... ({} bytes)", &s[..160], s.len()) } else { s.to_string() } }).collect();
                    return Err((Failure::new(format!("threshold family n={}: {}", n, e.lines().next().unwrap_or(""))).with_detail(json!({"documents": short})), json!({"threshold_n": n})));
                }
            }
        }
        if tier == Tier::Thorough {
            let runs = std::env::var("XSGV_FUZZ_RUNS").ok().and_then(|s| s.parse().ok()).unwrap_or(4_000u64);
            let seeds: Vec<Vec<u8>> = crate::runner::gen_tapes(self, seed ^ 0x7a9e, 60)
                .into_iter()
                .map(|t| {
                    let n = t.a.len().min(1023);
                    let mut v = vec![(n >> 8) as u8, (n & 255) as u8];
                    v.extend_from_slice(&t.a[..n]);
                    v.extend_from_slice(&t.b);
                    v
                })
                .collect();
            let c = crate::fuzzrun::Campaign { target: "fz_tape", runs_per_worker: runs, workers: 16, seed: seed ^ 0x03, max_len: 1024, seeds };
            crate::fuzzrun::campaign_for("C03", &c, st)?;
        }
        Ok(())
    }
    fn replay_custom(&self, payload: &Value) -> Result<(), Failure> {
        if let Some(l) = payload["big_family"].as_str() {
            return super::smallscope::replay_big_family(l, small_oracle).map_err(|e| Failure::new(e.lines().next().unwrap_or("").to_string()));
        }
        if let Some(n) = payload["threshold_n"].as_u64() {
            for docs in super::smallscope::threshold_family(n as usize) {
                let bytes: Vec<Vec<u8>> = docs.iter().map(|d| crate::xmlser::canonical(d).into_bytes()).collect();
                let refs: Vec<&crate::model::Node> = docs.iter().collect();
                small_oracle(&refs, &bytes).map_err(|e| Failure::new(e.lines().next().unwrap_or("").to_string()))?;
            }
            return Ok(());
        }
        if let Some(docs) = payload["small_scope_documents"].as_array() {
            let bytes: Vec<Vec<u8>> = docs.iter().map(|d| d.as_str().unwrap_or("").as_bytes().to_vec()).collect();
            return replay_small(&bytes).map_err(Failure::new);
        }
        match crate::fuzzrun::replay(payload) {
            // the tape target runs the oracles of several properties; only this property's verdict counts here
            Some(Err(f)) if f.msg.starts_with("C03:") => Err(f),
            _ => Ok(()),
        }
    }
    fn rule(&self) -> String {
        "small-scope exhaustive: every ordered pair of documents over {root r, child names a,b, attribute k, optional text} with <= 3 elements (quick; 300k pairs) or <= 4 elements (thorough; 76M pairs) and depth <= 3, plus all triples over <= 2 (quick) / <= 3 (thorough) elements and all 4-tuples over <= 2 elements (thorough); an attribute-list family (every triple of occurrences whose attribute lists are ordered subsets of a, b, ab, ba); a threshold family (a child repeated n times inside one parent occurrence / n parent occurrences, n around every power of two up to 1024 and around 65536; thorough adds 4096); sampled: tape-decoded sequences of 1..5 well-formed documents over small per-case name pools (all name classes, 1 in 8 wide), full surface variation; compared with an independent reference inference over the generator's DOM at two observation points (rendered structs, returned Element tree). Non-trivial = the reference schema holds at least one Optional or Vec decision and some position has two or more occurrences; distinct by hash of the structural documents.".into()
    }
    fn assumptions(&self) -> Vec<String> {
        vec![
            "domain as C01: no two element names and no two attribute names of a case are equal after prefix removal".into(),
            "a text node is any Text/CDATA node of the document, whitespace-only text and empty CDATA included (default reader, no trimming)".into(),
            "documents up to ~40 nodes (60 in wide mode), depth <= 6, k <= 5".into(),
        ]
    }
    fn describe(&self, tapes: &Tapes) -> Value {
        describe_case(&prepare(tapes, &Domain::general(), &SurfaceCfg::full()))
    }
    fn exhaustive(&self) -> bool {
        true
    }
    fn health(&self, _tier: Tier) -> Vec<(&'static str, u64)> {
        vec![("nontrivial", 5000), ("optional_child_reseen", 500), ("vec_only_in_later_document", 500), ("k>=3", 1000), ("repetition_at_depth_3+", 500), ("empty_cdata_only_text_position", 50), ("blank_only_text_position", 200), ("wide_mode", 500)]
    }
}
