//! C14 — struct names: own PascalCase name, qualified by nearest ancestors only when needed.

use super::common::*;
use crate::model::{local_of, Domain};
use crate::rendered::RNode;
use crate::runner::{hash_of, Failure, Property, Stats, Tapes, Tier};
use crate::sut::{Element, Options};
use crate::xmlser::SurfaceCfg;
use serde_json::{json, Value};
use std::collections::BTreeMap;

pub struct C14;

fn domain() -> Domain {
    let mut d = Domain::general();
    d.elem_classes = vec![("plain", 6), ("concat", 4), ("case", 3), ("separator", 3), ("keyword", 2), ("std", 2), ("prefixed", 2), ("nonascii", 2), ("digit", 1), ("trap", 1)];
    d.min_pool = 2;
    d.max_pool = 5;
    d.chain_chance = 40;
    d.chain_max = 200;
    d.max_docs = 3;
    d
}

fn count_positions(e: &Element<String>, counts: &mut BTreeMap<String, usize>) {
    // iterative (chains of depth 200)
    let mut stack = vec![e];
    while let Some(x) = stack.pop() {
        *counts.entry(x.formatted_name()).or_insert(0) += 1;
        for c in x.children() {
            stack.push(c.inner_t());
        }
    }
}

struct Walk<'a> {
    counts: &'a BTreeMap<String, usize>,
    checked: usize,
    qualified: usize,
    unique_unqualified: usize,
    suffixed: usize,
    max_depth: usize,
}

fn check_node(e: &Element<String>, r: &RNode, ancestors: &mut Vec<String>, w: &mut Walk) -> Result<(), String> {
    let own = e.formatted_name();
    // the PascalCase form keeps exactly the letters and digits of the name and starts with an upper- or uncased character
    // compared after full case mapping in both directions (`ı` -> `I`, `ß` -> `SS`, `ǰ` -> `J` + caron, `ŉ` -> `ʼN`, final sigma),
    // letters and digits only
    let cfold = |s: &str| -> String { s.chars().flat_map(|c| c.to_uppercase()).flat_map(|c| c.to_lowercase()).filter(|c| c.is_alphanumeric()).collect() };
    if cfold(&own) != cfold(&e.name) {
        return Err(format!("PascalCase form `{}` of element `{}` does not consist of the name's letters and digits", own, e.name));
    }
    if let Some(c) = own.chars().next() {
        if c.is_lowercase() {
            return Err(format!("PascalCase form `{}` of element `{}` starts with a lowercase letter", own, e.name));
        }
    }
    if own.chars().any(|c| !c.is_alphanumeric() && (c == '_' || !crate::props::c04::ident_continue(c))) {
        return Err(format!("PascalCase form `{}` of element `{}` contains a separator", own, e.name));
    }
    // a single word written in capitals (no separators, no lowercase letter, three or more cased letters) is not
    // PascalCase under any convention if it is left all capitals (two-letter acronyms are tolerated)
    let single_caps_word = e.name.chars().all(|c| c.is_alphanumeric()) && !e.name.chars().any(|c| c.is_lowercase());
    let cased: Vec<char> = own.chars().filter(|c| c.is_uppercase() || c.is_lowercase()).collect();
    if single_caps_word && cased.len() >= 3 && cased.iter().all(|c| c.is_uppercase()) {
        return Err(format!("`{}` (element `{}`) is all capitals, not a PascalCase form", own, e.name));
    }
    // word structure that every PascalCase convention shares, checked letter by letter when the form maps 1:1 onto the
    // name's letters and digits: a cased letter behind a separator starts a word (upper case); an upper-case letter that
    // is not preceded by another upper-case letter and is directly followed by a lower-case letter starts a word as well
    // (`S3Bucket`, `fooBar`; not claimed for `XMLHttp` / `AÑo`, where conventions differ and convert_string lowers it) and stays upper
    // case; a lower-case letter directly behind a lower-case letter is inside a word and stays lower case
    {
        let src: Vec<(char, bool)> = {
            let mut v = Vec::new();
            let mut after_sep = false;
            for c in e.name.chars() {
                if c.is_alphanumeric() {
                    v.push((c, after_sep));
                    after_sep = false;
                } else {
                    after_sep = true;
                }
            }
            v
        };
        let out: Vec<char> = own.chars().collect();
        let same_letters = src.len() == out.len() && src.iter().zip(out.iter()).all(|((a, _), b)| a.to_lowercase().eq(b.to_lowercase()));
        if same_letters {
            for i in 0..src.len() {
                let (c, after_sep) = src[i];
                let o = out[i];
                let cased = c.is_uppercase() || c.is_lowercase();
                if !cased {
                    continue;
                }
                if after_sep && o.is_lowercase() {
                    return Err(format!("PascalCase form `{}` of element `{}`: the letter `{}` behind a separator starts a word but is lower case", own, e.name, o));
                }
                if c.is_uppercase() && (i == 0 || after_sep || !src[i - 1].0.is_uppercase()) && i + 1 < src.len() && src[i + 1].0.is_lowercase() && !src[i + 1].1 && o.is_lowercase() {
                    return Err(format!("PascalCase form `{}` of element `{}`: `{}{}` starts a word in the name but `{}` is lower case in the form", own, e.name, c, src[i + 1].0, o));
                }
                if c.is_lowercase() && i > 0 && src[i - 1].0.is_lowercase() && !after_sep && o.is_uppercase() {
                    return Err(format!("PascalCase form `{}` of element `{}`: `{}` is inside a word of the name but upper case in the form", own, e.name, c));
                }
            }
        }
    }
    let name = &r.struct_name;
    // find j such that name == P(e_{k-j}) .. P(e_k) + digits
    let mut found: Option<usize> = None;
    let mut prefix = own.clone();
    for j in 0..=ancestors.len() {
        if j > 0 {
            prefix = format!("{}{}", ancestors[ancestors.len() - j], prefix);
        }
        if let Some(rest) = name.strip_prefix(prefix.as_str()) {
            // a disambiguating suffix: digits, possibly separated by underscores (the statement does not fix its form)
            if rest.chars().all(|c| c.is_ascii_digit() || c == '_') {
                found = Some(j);
                if !rest.is_empty() {
                    w.suffixed += 1;
                }
                break;
            }
        }
        if prefix.len() > name.len() {
            break;
        }
    }
    let path = || format!("/{}", ancestors.iter().map(|s| s.as_str()).chain(std::iter::once(own.as_str())).collect::<Vec<_>>().join("/"));
    let j = found.ok_or_else(|| format!("struct `{}` at {} is not the PascalCase name `{}` preceded by its nearest ancestors' names (and an optional numeric suffix)", name, path(), own))?;
    if ancestors.is_empty() && j != 0 {
        return Err(format!("first struct `{}` is not named after the root element `{}`", name, e.name));
    }
    w.checked += 1;
    w.max_depth = w.max_depth.max(ancestors.len() + 1);
    if j > 0 {
        w.qualified += 1;
        if w.counts.get(&own).copied().unwrap_or(0) == 1 {
            return Err(format!("struct `{}` at {}: the name `{}` occurs at a single position of the tree but is qualified with {} ancestor name(s)", name, path(), own, j));
        }
    } else if w.counts.get(&own).copied().unwrap_or(0) == 1 {
        w.unique_unqualified += 1;
    }
    ancestors.push(own);
    for c in &r.children {
        if let Some(n) = &c.node {
            let ce = e
                .children()
                .iter()
                .map(|x| x.inner_t())
                .find(|x| local_of(&x.name) == c.bound)
                .ok_or_else(|| format!("field `{}` of struct `{}` has no element child", c.bound, name))?;
            check_node(ce, n, ancestors, w)?;
        }
    }
    ancestors.pop();
    Ok(())
}

fn small_check(bytes: &[Vec<u8>]) -> Result<bool, String> {
    let root = crate::sut::parse_seq(bytes).map_err(|(i, e)| format!("document #{} rejected: {}", i + 1, e))?;
    let src = root.to_serde_struct(&Options::quick_xml_de());
    let defs = crate::rendered::read_lines(&src).map_err(|e| format!("output unreadable: {}\n{}", e, src))?;
    let tree = crate::rendered::build_tree(&defs, "@", "$text").map_err(|e| format!("not a tree: {}\n{}", e, src))?;
    let mut counts = BTreeMap::new();
    count_positions(&root, &mut counts);
    let mut w = Walk { counts: &counts, checked: 0, qualified: 0, unique_unqualified: 0, suffixed: 0, max_depth: 0 };
    check_node(&root, &tree, &mut Vec::new(), &mut w).map_err(|e| format!("{}\n{}", e, src))?;
    Ok(w.qualified > 0 || w.suffixed > 0)
}

impl Property for C14 {
    fn id(&self) -> &'static str {
        "C14"
    }
    fn tape_sizes(&self) -> (usize, usize, usize) {
        (700, 300, 0)
    }
    fn cases(&self, tier: Tier) -> u64 {
        match tier {
            Tier::Quick => 40_000,
            Tier::Thorough => 2_000_000,
        }
    }
    fn stack_mib(&self) -> usize {
        64
    }
    fn check(&self, tapes: &Tapes, st: &mut Stats) -> Result<(), Failure> {
        let p = prepare(tapes, &domain(), &SurfaceCfg::plain());
        // every second case renders the tree after each document (a cached name must not survive an extension)
        let root = if tapes.a.first().map(|b| b & 1 == 1).unwrap_or(false) { parse_docs_observed(&p.bytes)? } else { parse_docs(&p.bytes)? };
        let (src, _defs, tree) = render_tree(&root, &Options::quick_xml_de())?;
        let mut counts = BTreeMap::new();
        count_positions(&root, &mut counts);
        let mut w = Walk { counts: &counts, checked: 0, qualified: 0, unique_unqualified: 0, suffixed: 0, max_depth: 0 };
        let res = check_node(&root, &tree, &mut Vec::new(), &mut w);
        let repeated = counts.values().any(|c| *c >= 2);
        let unique = counts.values().any(|c| *c == 1);
        if repeated && unique && w.max_depth >= 3 {
            st.nontrivial(hash_of(&p.case.docs));
        }
        if w.qualified > 0 {
            st.count("has_qualified_names");
        }
        if w.unique_unqualified > 0 {
            st.count("has_unique_unqualified_names");
        }
        if w.suffixed > 0 {
            st.count("has_numeric_suffix");
        }
        if w.max_depth >= 50 {
            st.count("depth>=50");
        }
        if w.max_depth >= 150 {
            st.count("depth>=150");
        }
        st.add("structs_checked", w.checked as u64);
        st.sample(|| describe_case(&p));
        res.map_err(|e| Failure::new(e).with_detail(json!({"case": describe_case(&p), "rendered": src})))
    }
    fn extra(&self, tier: Tier, _seed: u64, st: &mut Stats) -> Result<(), (Failure, Value)> {
        let max_nodes = match tier {
            Tier::Quick => 4,
            Tier::Thorough => 5,
        };
        let docs = super::smallscope::documents_over(max_nodes, super::c04::SMALL_NAMES);
        let (evals, nts, fail) = super::smallscope::run_tuples_over(docs, 1, |_docs, bytes| small_check(bytes));
        st.evaluations += evals;
        st.nontrivial_enumerated += nts;
        st.add("exhaustive.documents_over_colliding_names", evals);
        if let Some((e, docs)) = fail {
            return Err((Failure::new(format!("small-scope exhaustive search: {}", e)).with_detail(json!({"documents": docs})), json!({"small_scope_documents": docs})));
        }
        Ok(())
    }
    fn replay_custom(&self, payload: &Value) -> Result<(), Failure> {
        let docs: Vec<Vec<u8>> = payload["small_scope_documents"].as_array().map(|a| a.iter().map(|d| d.as_str().unwrap_or("").as_bytes().to_vec()).collect()).unwrap_or_default();
        small_check(&docs).map(|_| ()).map_err(Failure::new)
    }
    fn exhaustive(&self) -> bool {
        true
    }
    fn rule(&self) -> String {
        "small-scope exhaustive: every document with root r and up to 4 (thorough: 5) elements over the child names a, b, ab, A, type; sampled: tape-decoded document sequences over pools of 2..5 names (so the same name recurs under different parents, at different depths and under itself; overlapping concatenations such as Total/Price/TotalPrice, A/BC/AB/C), one document in six a chain of depth up to 200. Every struct item is mapped to its tree position (pre-order) and its name must be P(e_k-j)..P(e_k) plus optional digits for the nearest j ancestors, j = 0 for the first struct and for every element whose PascalCase name occurs at a single position of the whole tree (String-typed positions included). Non-trivial = some name occurs at two or more positions, some name is unique, depth >= 3; distinct by hash of the structural documents.".into()
    }
    fn assumptions(&self) -> Vec<String> {
        vec![
            "PascalCase form = Element::formatted_name() (convert_string), sanity-checked structurally: exactly the name's letters and digits, no separators, first character upper/uncased, a single all-capitals word of three or more cased letters must not stay all capitals (two-letter acronyms and multi-word names such as a.b.c -> ABC are fine), a letter behind a separator and an upper-case letter directly followed by a lower-case one and not preceded by an upper-case one start a word (upper case in the form), a lower-case letter directly behind a lower-case letter stays lower case".into(),
            "names avoid code points whose case mapping changes length".into(),
            "a disambiguating suffix is a run of ASCII digits and underscores".into(),
        ]
    }
    fn describe(&self, tapes: &Tapes) -> Value {
        describe_case(&prepare(tapes, &domain(), &SurfaceCfg::plain()))
    }
    fn health(&self, _tier: Tier) -> Vec<(&'static str, u64)> {
        vec![("nontrivial", 3000), ("has_qualified_names", 3000), ("has_unique_unqualified_names", 3000), ("depth>=150", 100)]
    }
}
