//! C10 — options change exactly what they name and nothing else (metamorphic, byte-exact).

use super::common::*;
use crate::model::Domain;
use crate::runner::{hash_of, Failure, Property, Stats, Tapes, Tier};
use crate::sut::{self, Options, SortBy};
use crate::tape::Tape;
use crate::xmlser::SurfaceCfg;
use serde_json::{json, Value};

pub struct C10;

/// private-use code points: never produced by the option generator, cannot occur in XML names or identifiers
const SP: &str = "\u{E000}";
const ST: &str = "\u{E001}";

/// expected rendering for (prefix, text id, derive), computed from the sentinel rendering by text substitution
///
/// `escaped`: the bound names are written as Rust string literals with `\` and `"` escaped. The statement speaks about
/// the serde names that attributes and text are bound to; the crate writes them between the quotes as they are, a
/// renderer that escapes them binds the same names (and, unlike the former, stays well-formed for such option values)
fn expected_from_base(base: &str, o: &OptSpec, escaped: bool) -> Result<String, String> {
    let lit = |s: &str| if escaped { s.replace('\\', "\\\\").replace('"', "\\\"") } else { s.to_string() };
    let lines: Vec<&str> = base.split('\n').collect();
    let mut out = String::new();
    let mut i = 0;
    while i < lines.len() {
        let l = lines[i];
        let last = i + 1 == lines.len();
        if l.starts_with("pub struct ") {
            if !o.derive.is_empty() {
                out.push_str(&format!("#[derive({})]\n", o.derive));
            }
            out.push_str(l);
        } else if let Some(rest) = l.strip_prefix("    #[serde(rename = \"") {
            if let Some(local_q) = rest.strip_prefix(SP) {
                let local = local_q.strip_suffix("\")]").ok_or("bad attribute rename line")?;
                let next = lines.get(i + 1).ok_or("rename line at eof")?;
                let ident = next.strip_prefix("    pub ").and_then(|r| r.split_once(": ")).map(|x| x.0).ok_or("no field line after rename")?;
                let bound = format!("{}{}", o.prefix, local);
                if ident != bound {
                    out.push_str(&format!("    #[serde(rename = \"{}\")]", lit(&bound)));
                } else {
                    // the rename line disappears exactly when the bound name equals the identifier
                    i += 1;
                    continue;
                }
            } else if rest == format!("{}\")]", ST) {
                out.push_str(&format!("    #[serde(rename = \"{}\")]", lit(&o.text_id)));
            } else {
                out.push_str(l);
            }
        } else {
            if l.contains(SP) || l.contains(ST) {
                return Err(format!("sentinel leaked into a line that is not a rename line: `{}`", l));
            }
            out.push_str(l);
        }
        if !last {
            out.push('\n');
        }
        i += 1;
    }
    Ok(out)
}

fn strip_renames(s: &str) -> String {
    s.split('\n').filter(|l| !l.starts_with("    #[serde(rename = \"")).collect::<Vec<_>>().join("\n")
}

fn c10_domain() -> Domain {
    // sibling names that differ only in their namespace prefix stay out: the rename rule is checked per bound name
    Domain::general()
}

impl Property for C10 {
    fn id(&self) -> &'static str {
        "C10"
    }
    fn tape_sizes(&self) -> (usize, usize, usize) {
        (600, 200, 64)
    }
    fn cases(&self, tier: Tier) -> u64 {
        match tier {
            Tier::Quick => 60_000,
            Tier::Thorough => 2_000_000,
        }
    }
    fn check(&self, tapes: &Tapes, st: &mut Stats) -> Result<(), Failure> {
        let mut surf = SurfaceCfg::plain();
        surf.comments = true;
        let p = prepare(tapes, &c10_domain(), &surf);
        let mut tc = Tape::new(&tapes.c);
        let o = decode_options(&mut tc);
        let root = parse_docs(&p.bytes)?;
        let sort = || if o.by_name { SortBy::XmlName } else { SortBy::Unsorted };
        let base_opts = sut::opts_custom(SP, ST, "", o.by_name);
        let base = root.to_serde_struct(&base_opts);
        let actual = root.to_serde_struct(&o.to_options_literal());
        // the same options set through the builder must render the same bytes
        let via_builder = root.to_serde_struct(&o.to_options());
        if via_builder != actual {
            return Err(Failure::new(format!("Options::derive({:?}) does not reproduce the derive string verbatim", o.derive))
                .with_detail(json!({"literal": actual, "builder": via_builder, "options": o.json()})));
        }
        let detail = |exp: &str| json!({"case": describe_case(&p), "options": o.json(), "base_with_sentinels": base, "expected": exp, "actual": actual});

        // classification
        let n_structs = base.matches("pub struct ").count();
        let has_attr = base.contains(SP);
        let has_text = base.contains(ST);
        let is_preset = (o.prefix == "@" || o.prefix.is_empty()) && o.text_id == "$text" && o.derive == "Serialize, Deserialize";
        if has_attr && has_text && n_structs >= 2 && !is_preset {
            st.nontrivial(hash_of(&(&p.case.docs, &o.prefix, &o.text_id, &o.derive, o.by_name)));
        }
        if o.derive.is_empty() {
            st.count("derive.empty");
        }
        if o.prefix.is_empty() {
            st.count("prefix.empty");
        }
        if has_attr {
            st.count("has_attributes");
        }
        if has_text {
            st.count("has_text_field");
        }
        if o.by_name {
            st.count("sort_by_name");
        }
        st.sample(|| json!({"case": describe_case(&p), "options": o.json()}));

        let exp = expected_from_base(&base, &o, false).map_err(|e| Failure::new(e).with_detail(detail("")))?;
        let needs_escape = o.prefix.contains(['"', '\\']) || o.text_id.contains(['"', '\\']);
        if needs_escape {
            st.count("option_value_with_quote_or_backslash");
        }
        let exp_escaped = if needs_escape { expected_from_base(&base, &o, true).map_err(|e| Failure::new(e).with_detail(detail("")))? } else { exp.clone() };
        if exp != actual && exp_escaped != actual {
            let la: Vec<&str> = exp.split('\n').collect();
            let lb: Vec<&str> = actual.split('\n').collect();
            let i = (0..la.len().max(lb.len())).find(|i| la.get(*i) != lb.get(*i)).unwrap_or(0);
            return Err(Failure::new(format!(
                "rendering with options {} is not the sentinel rendering with prefix/text identifier/derive substituted; first difference at line {}: expected `{}`, got `{}`",
                o.json(),
                i + 1,
                la.get(i).unwrap_or(&"<eof>"),
                lb.get(i).unwrap_or(&"<eof>")
            ))
            .with_detail(detail(&exp)));
        }
        if exp.matches("#[serde(rename = \"").count() != base.matches("#[serde(rename = \"").count() {
            st.count("attribute_rename_elided");
            if !o.prefix.is_empty() {
                st.count("attribute_rename_elided_with_non_empty_prefix");
            }
        }

        // presets: equal up to rename lines; presets are what their fields say; derive() only sets derive
        let mut q = Options::quick_xml_de();
        let mut s = Options::serde_xml_rs();
        q.sort = sort();
        s.sort = sort();
        let rq = root.to_serde_struct(&q);
        let rs = root.to_serde_struct(&s);
        if strip_renames(&rq) != strip_renames(&rs) {
            return Err(Failure::new("quick-xml and serde-xml-rs presets differ in more than rename lines").with_detail(json!({"case": describe_case(&p), "quick_xml": rq, "serde_xml_rs": rs})));
        }
        let rq2 = root.to_serde_struct(&sut::opts_custom("@", "$text", "Serialize, Deserialize", o.by_name));
        if rq != rq2 {
            return Err(Failure::new("Options::quick_xml_de() does not render like {prefix \"@\", text \"$text\", derive \"Serialize, Deserialize\"}").with_detail(json!({"preset": rq, "explicit": rq2})));
        }
        let mut qd = Options::quick_xml_de().derive(&o.derive);
        qd.sort = sort();
        let rqd = root.to_serde_struct(&qd);
        let rqd2 = root.to_serde_struct(&sut::opts_custom("@", "$text", &o.derive, o.by_name));
        if rqd != rqd2 {
            return Err(Failure::new("Options::derive() changed more than the derive string").with_detail(json!({"builder": rqd, "explicit": rqd2})));
        }
        // child rename rule against the documents: every child name has a field bound to its local name,
        // and that field carries a rename exactly when its identifier differs from the local name
        {
            let schema = crate::refinf::infer_docs(&p.case.docs);
            let defs = crate::rendered::read_lines(&rq).map_err(|e| Failure::new(format!("preset output unreadable: {}", e)).with_detail(detail(&exp)))?;
            let tree = crate::rendered::build_tree(&defs, "@", "$text").map_err(|e| Failure::new(format!("preset output is not a tree: {}", e)).with_detail(detail(&exp)))?;
            fn walk(s: &crate::refinf::Schema, r: &crate::rendered::RNode, defs: &[crate::rendered::StructDef]) -> Result<u64, String> {
                let mut n = 0;
                let d = &defs[r.def_index];
                for c in &s.children {
                    let local = crate::model::local_of(&c.schema.name);
                    let f = d.fields.iter().find(|f| f.bound() == local && !f.bound().starts_with('@') && f.bound() != "$text");
                    let f = f.ok_or_else(|| format!("struct {}: child `{}` has no field bound to `{}` (a rename is missing or wrong)", d.name, c.schema.name, local))?;
                    if f.rename.is_some() == (f.ident == local) {
                        return Err(format!("struct {}: field `{}` for child `{}` {} a rename although its identifier {} the local name", d.name, f.ident, c.schema.name, if f.rename.is_some() { "carries" } else { "lacks" }, if f.ident == local { "equals" } else { "differs from" }));
                    }
                    n += 1;
                    if let Some(rc) = r.child(local) {
                        if let Some(sub) = &rc.node {
                            n += walk(&c.schema, sub, defs)?;
                        }
                    }
                }
                Ok(n)
            }
            let n = walk(&schema, &tree, &defs).map_err(|e| Failure::new(format!("child rename rule: {}", e)).with_detail(detail(&exp)))?;
            st.add("child_rename_decisions_checked_against_documents", n);
        }
        // child renames: never redundant
        for (i, l) in base.split('\n').enumerate() {
            if let Some(rest) = l.strip_prefix("    #[serde(rename = \"") {
                if !rest.starts_with(SP) && !rest.starts_with(ST) {
                    let name = rest.strip_suffix("\")]").unwrap_or(rest);
                    let next = base.split('\n').nth(i + 1).unwrap_or("");
                    let ident = next.strip_prefix("    pub ").and_then(|r| r.split_once(": ")).map(|x| x.0).unwrap_or("");
                    if ident == name {
                        return Err(Failure::new(format!("child field `{}` carries a rename to its own identifier", ident)).with_detail(detail(&exp)));
                    }
                    st.count("child_renames_checked");
                }
            }
        }
        Ok(())
    }
    fn rule(&self) -> String {
        "tape-decoded document sequences x options (attribute prefix, text identifier and derive string from curated lists that include empty, unicode, quotes, parentheses, newline; both sort orders). The tree is rendered once with private-use sentinels as prefix/text identifier and empty derive; the expected output for the variant options is obtained by textual substitution (sentinels replaced, attribute rename line removed exactly when identifier == prefix+local name, derive line inserted before every struct iff non-empty) and must equal the actual output byte for byte; the two presets must agree up to rename lines; against the reference inference every child name must have a field bound to its local name, renamed exactly when identifier and local name differ. Non-trivial = the tree has an attribute, a text field and two or more structs and the options differ from both presets; distinct by hash of documents and options.".into()
    }
    fn assumptions(&self) -> Vec<String> {
        vec!["option strings come from curated lists (11 prefixes, 10 text identifiers, 15 derive strings) and, one in four, random strings of up to 6/8/40 characters over a 38-character palette (punctuation, quotes, brackets, whitespace, non-ASCII)".into()]
    }
    fn describe(&self, tapes: &Tapes) -> Value {
        let mut surf = SurfaceCfg::plain();
        surf.comments = true;
        let mut tc = Tape::new(&tapes.c);
        json!({"case": describe_case(&prepare(tapes, &c10_domain(), &surf)), "options": decode_options(&mut tc).json()})
    }
    fn health(&self, _tier: Tier) -> Vec<(&'static str, u64)> {
        vec![("nontrivial", 5000), ("derive.empty", 1000), ("prefix.empty", 1000), ("attribute_rename_elided", 300), ("attribute_rename_elided_with_non_empty_prefix", 30), ("child_renames_checked", 5000)]
    }
}
