//! C05 — rendering is deterministic (within a process, across threads, across processes).

use super::common::*;
use crate::model::Domain;
use crate::refinf::infer_docs;
use crate::runner::{hash_of, hex, Failure, Property, Stats, Tapes, Tier};
use crate::tape::Tape;
use crate::xmlser::SurfaceCfg;
use serde_json::{json, Value};

pub struct C05;

pub fn domain() -> Domain {
    let mut d = Domain::general();
    // weight the classes that make identifier collisions (and hence internal order) observable
    d.elem_classes = vec![("plain", 3), ("case", 6), ("separator", 6), ("keyword", 4), ("concat", 3), ("trap", 3), ("prefixed", 3), ("std", 1), ("nonascii", 1)];
    // the statement is about all documents: names that differ only in their namespace prefix (link / atom:link, a:id / b:id)
    // are allowed here (byte equality needs no reference model)
    d.no_prefix_clash = false;
    d
}

fn render_once(p: &Prepared, opts: &OptSpec) -> Result<String, Failure> {
    let root = parse_docs(&p.bytes)?;
    Ok(root.to_serde_struct(&opts.to_options()))
}

/// the same history with a rendering (both sort orders, another option set) after every step, and a clone rendered
/// in between: observing a tree must not change what it renders later
fn render_observed(p: &Prepared, opts: &OptSpec) -> Result<String, Failure> {
    let mut root: Option<crate::sut::Element<String>> = None;
    for b in &p.bytes {
        let r = crate::sut::parse_with(b, root.take(), &crate::sut::ReaderCfg::default_slice()).map_err(|e| Failure::new(format!("a document was rejected: {}", e)))?;
        let _ = r.to_serde_struct(&crate::sut::opts_quick(true, "Debug"));
        let _ = r.clone().to_serde_struct(&opts.to_options());
        let _ = r.to_serde_struct(&crate::sut::Options::serde_xml_rs());
        root = Some(r);
    }
    let root = root.ok_or_else(|| Failure::new("no document"))?;
    Ok(root.to_serde_struct(&opts.to_options()))
}

fn first_diff(a: &str, b: &str) -> String {
    let la: Vec<&str> = a.lines().collect();
    let lb: Vec<&str> = b.lines().collect();
    for i in 0..la.len().max(lb.len()) {
        if la.get(i) != lb.get(i) {
            return format!("line {}: `{}` vs `{}`", i + 1, la.get(i).unwrap_or(&"<eof>"), lb.get(i).unwrap_or(&"<eof>"));
        }
    }
    "outputs differ in trailing bytes".into()
}

fn options_of(tapes: &Tapes) -> OptSpec {
    let mut t = Tape::new(&tapes.c);
    decode_options(&mut t)
}

pub fn render_for_subprocess(tapes: &Tapes) -> String {
    let p = prepare(tapes, &domain(), &SurfaceCfg::full());
    match render_once(&p, &options_of(tapes)) {
        Ok(s) => s,
        Err(f) => format!("ERROR {}", f.msg),
    }
}

fn big_oracle(_docs: &[&crate::model::Node], bytes: &[Vec<u8>]) -> Result<bool, String> {
    let mut first: Option<String> = None;
    for _ in 0..6 {
        let root = crate::sut::parse_seq(bytes).map_err(|(i, e)| format!("document #{} rejected: {}", i + 1, e))?;
        let out = format!("{}\n====\n{}", root.to_serde_struct(&crate::sut::opts_quick(false, "D")), root.to_serde_struct(&crate::sut::opts_quick(true, "D")));
        match &first {
            None => first = Some(out),
            Some(f) => {
                if *f != out {
                    return Err(format!("two runs over the same documents produced different bytes: {}", first_diff(f, &out)));
                }
            }
        }
    }
    Ok(true)
}

impl Property for C05 {
    fn id(&self) -> &'static str {
        "C05"
    }
    fn tape_sizes(&self) -> (usize, usize, usize) {
        (600, 400, 48)
    }
    fn cases(&self, tier: Tier) -> u64 {
        match tier {
            Tier::Quick => 24_000,
            Tier::Thorough => 1_000_000,
        }
    }
    fn check(&self, tapes: &Tapes, st: &mut Stats) -> Result<(), Failure> {
        let p = prepare(tapes, &domain(), &SurfaceCfg::full());
        let opts = options_of(tapes);
        let schema = infer_docs(&p.case.docs);
        let coll = has_colliding_fields(&schema);
        let multi = has_multi_demotion(&schema);
        if coll {
            st.count("colliding_identifiers_in_one_struct");
        }
        if multi {
            st.count("several_demotions_at_one_position");
        }
        if coll && multi {
            st.count("both");
        }
        if coll || multi {
            st.nontrivial(hash_of(&p.case.docs));
        }
        st.count(&format!("docs.k={}", p.case.docs.len()));
        st.sample(|| json!({"case": describe_case(&p), "options": opts.json()}));
        // while shrinking (stats frozen) and on replay use many repetitions so that a flaky failure keeps failing
        let reps = if st.frozen { 40 } else if std::env::var("XSGV_TIER_THOROUGH").is_ok() { 16 } else { 8 };
        let first = render_once(&p, &opts)?;
        for i in 1..reps {
            let again = render_once(&p, &opts)?;
            if again != first {
                return Err(Failure::new(format!("repetition {} of parse+extend+render produced different bytes: {}", i + 1, first_diff(&first, &again)))
                    .with_detail(json!({"case": describe_case(&p), "options": opts.json(), "first": first, "other": again})));
            }
            st.count("repetitions_compared");
        }
        // renderings in between (after every document, other options, a clone) must not influence the final one
        {
            let observed = render_observed(&p, &opts)?;
            if observed != first {
                return Err(Failure::new(format!("rendering the tree after every step changes what it renders at the end: {}", first_diff(&first, &observed)))
                    .with_detail(json!({"case": describe_case(&p), "options": opts.json(), "first": first, "other": observed})));
            }
            st.count("histories_with_intermediate_renderings");
        }
        // across threads (fresh thread => fresh per-thread hash keys), one case in eight
        if tapes.a.len() % 8 == 0 {
            st.count("cases_compared_across_threads");
            let outs: Vec<Result<String, Failure>> = std::thread::scope(|s| {
                let hs: Vec<_> = (0..4).map(|_| s.spawn(|| render_once(&p, &opts))).collect();
                hs.into_iter().map(|h| h.join().expect("join")).collect()
            });
            for o in outs {
                let o = o?;
                if o != first {
                    return Err(Failure::new(format!("another thread produced different bytes: {}", first_diff(&first, &o)))
                        .with_detail(json!({"case": describe_case(&p), "options": opts.json(), "first": first, "other": o})));
                }
            }
        }
        Ok(())
    }
    fn extra(&self, tier: Tier, seed: u64, st: &mut Stats) -> Result<(), (Failure, Value)> {
        // small-scope exhaustive part: every document with up to 4 (thorough: 5) elements over colliding child names,
        // parsed and rendered 4 times each (both sort orders alternate)
        {
            let max_nodes = match tier {
                Tier::Quick => 4,
                Tier::Thorough => 5,
            };
            let mut docs = super::smallscope::documents_over(max_nodes, super::c04::SMALL_NAMES);
            // flat elements over names that collide and leave gaps in the numeric suffixes (foo_1, foo_3)
            {
                const N: &[&str] = &["foo", "Foo", "FOO", "foo_1", "foo_3", "foo-2", "fOO"];
                fn seqs(max: usize, cur: &mut Vec<usize>, out: &mut Vec<Vec<usize>>) {
                    out.push(cur.clone());
                    if cur.len() == max {
                        return;
                    }
                    for i in 0..N.len() {
                        if !cur.contains(&i) {
                            cur.push(i);
                            seqs(max, cur, out);
                            cur.pop();
                        }
                    }
                }
                let mut cs = Vec::new();
                seqs(if max_nodes >= 5 { 6 } else { 5 }, &mut Vec::new(), &mut cs);
                let mut asq = Vec::new();
                seqs(2, &mut Vec::new(), &mut asq);
                for (ci, c) in cs.iter().enumerate() {
                    for (ai, a) in asq.iter().enumerate() {
                        if c.len() >= 4 && (ai + ci) % 8 != 0 {
                            continue;
                        }
                        docs.push(crate::model::Node {
                            name: "foo".into(),
                            attrs: a.iter().map(|i| N[*i].to_string()).collect(),
                            items: c.iter().map(|i| crate::model::Item::Child(crate::model::Node { name: N[*i].to_string(), attrs: vec![], items: vec![] })).collect(),
                        });
                    }
                }
            }
            let (evals, nts, fail) = super::smallscope::run_tuples_over(docs, 1, |_d, bytes| {
                let mut first: Option<String> = None;
                for _ in 0..4 {
                    let root = crate::sut::parse_seq(bytes).map_err(|(i, e)| format!("document #{} rejected: {}", i + 1, e))?;
                    let out = format!("{}\n====\n{}", root.to_serde_struct(&crate::sut::opts_quick(false, "D")), root.to_serde_struct(&crate::sut::opts_quick(true, "D")));
                    match &first {
                        None => first = Some(out),
                        Some(f) => {
                            if *f != out {
                                return Err(format!("two runs over the same document produced different bytes: {}", first_diff(f, &out)));
                            }
                        }
                    }
                }
                Ok(true)
            });
            st.evaluations += evals;
            st.nontrivial_enumerated += nts;
            st.add("exhaustive.documents_over_colliding_names", evals);
            if let Some((e, docs)) = fail {
                return Err((Failure::new(format!("small-scope exhaustive search: {}", e)).with_detail(json!({"documents": docs})), json!({"small_scope_documents": docs})));
            }
        }
        // families beyond the small scope (sizes around plausible limits: windows, inline capacities, two-digit suffixes)
        {
            let (n, fail) = super::smallscope::run_big_families(big_oracle);
            st.evaluations += n;
            st.nontrivial_enumerated += n;
            st.add("big_families", n);
            if let Some((label, e, docs)) = fail {
                let first = e.lines().next().unwrap_or("").to_string();
                return Err((Failure::new(format!("family `{}`: {}", label, first)).with_detail(json!({"documents": docs, "message": e})), json!({"big_family": label})));
            }
        }
        // across processes: P fresh processes of this binary render the same tapes
        let (n, procs) = match tier {
            Tier::Quick => (200, 4),
            Tier::Thorough => (5000, 8),
        };
        let exe = std::env::current_exe().map_err(|e| (Failure::new(format!("current_exe: {}", e)).with_signature("infrastructure"), Value::Null))?;
        let all = crate::runner::gen_tapes(self, seed ^ 0x5eed, n);
        let fail: std::sync::Mutex<Option<(Failure, Value)>> = std::sync::Mutex::new(None);
        let counted = std::sync::atomic::AtomicU64::new(0);
        std::thread::scope(|s| {
            for w in 0..16usize {
                let all = &all;
                let exe = &exe;
                let fail = &fail;
                let counted = &counted;
                s.spawn(move || {
                    for (i, tapes) in all.iter().enumerate() {
                        if i % 16 != w || fail.lock().unwrap().is_some() {
                            continue;
                        }
                        let here = render_for_subprocess(tapes);
                        for _ in 0..procs {
                            let out = std::process::Command::new(exe).arg("__render_c05").arg(hex(&tapes.a)).arg(hex(&tapes.b)).arg(hex(&tapes.c)).output();
                            match out {
                                Ok(o) if o.status.success() => {
                                    let s = String::from_utf8_lossy(&o.stdout).to_string();
                                    if s != here {
                                        let mut f = fail.lock().unwrap();
                                        if f.is_none() {
                                            *f = Some((
                                                Failure::new(format!("a fresh process produced different bytes: {}", first_diff(&here, &s)))
                                                    .with_detail(json!({"first": here, "other": s, "decoded": C05.describe(tapes)})),
                                                json!({"a": hex(&tapes.a), "b": hex(&tapes.b), "c": hex(&tapes.c)}),
                                            ));
                                        }
                                        return;
                                    }
                                    counted.fetch_add(1, std::sync::atomic::Ordering::Relaxed);
                                }
                                Ok(o) => {
                                    let mut f = fail.lock().unwrap();
                                    if f.is_none() {
                                        *f = Some((Failure::new(format!("render subprocess failed: {:?}", o.status)).with_signature("infrastructure"), Value::Null));
                                    }
                                    return;
                                }
                                Err(e) => {
                                    let mut f = fail.lock().unwrap();
                                    if f.is_none() {
                                        *f = Some((Failure::new(format!("cannot spawn render subprocess: {}", e)).with_signature("infrastructure"), Value::Null));
                                    }
                                    return;
                                }
                            }
                        }
                    }
                });
            }
        });
        st.add("process_runs_compared", counted.load(std::sync::atomic::Ordering::Relaxed));
        st.add("cases_compared_across_processes", n as u64);
        match fail.into_inner().unwrap() {
            Some(x) => Err(x),
            None => Ok(()),
        }
    }
    fn replay_custom(&self, payload: &Value) -> Result<(), Failure> {
        if let Some(l) = payload["big_family"].as_str() {
            return super::smallscope::replay_big_family(l, big_oracle).map_err(Failure::new);
        }
        if let Some(a) = payload["small_scope_documents"].as_array() {
            let docs: Vec<Vec<u8>> = a.iter().map(|d| d.as_str().unwrap_or("").as_bytes().to_vec()).collect();
            let mut first: Option<String> = None;
            for _ in 0..40 {
                let root = crate::sut::parse_seq(&docs).map_err(|(i, e)| Failure::new(format!("document #{} rejected: {}", i + 1, e)))?;
                let out = format!("{}\n====\n{}", root.to_serde_struct(&crate::sut::opts_quick(false, "D")), root.to_serde_struct(&crate::sut::opts_quick(true, "D")));
                match &first {
                    None => first = Some(out),
                    Some(f) => {
                        if *f != out {
                            return Err(Failure::new(format!("two runs over the same document produced different bytes: {}", first_diff(f, &out))));
                        }
                    }
                }
            }
            return Ok(());
        }
        // process-level replay: re-run the in-process repetitions on the saved tapes
        let tapes = Tapes {
            a: crate::runner::unhex(payload["a"].as_str().unwrap_or("")),
            b: crate::runner::unhex(payload["b"].as_str().unwrap_or("")),
            c: crate::runner::unhex(payload["c"].as_str().unwrap_or("")),
            small: false,
        };
        let mut st = Stats::default();
        for _ in 0..8 {
            self.check(&tapes, &mut st)?;
        }
        Ok(())
    }
    fn rule(&self) -> String {
        "small-scope exhaustive: every document with up to 4 (thorough: 5) elements over the child names a, b, ab, A, type, rendered 4 times under both sort orders; sampled: tape-decoded document sequences over pools weighted towards identifier-colliding names (case/separator variants, keywords), arbitrary options; the bytes of parse+extend+render are compared across 8 (quick) / 16 (thorough) in-process repetitions, with a history that renders the tree (other options, a clone) after every document (each HashMap instance draws fresh hash keys), across 4 threads for one case in eight, and across 4/8 fresh processes for 200/5000 cases. Non-trivial = some struct has two fields whose names collide after normalisation, or some position with two or more occurrences has two or more optional children (several demotions at one position); distinct by hash of the structural documents.".into()
    }
    fn assumptions(&self) -> Vec<String> {
        vec![
            "an order dependence that is exposed by a case is missed with probability about 2^-(R-1) per exposing case (R repetitions); absence cannot be shown by repetition".into(),
            "allocation-address dependence is only observable through differing outputs across repetitions/processes (ASLR is on)".into(),
        ]
    }
    fn describe(&self, tapes: &Tapes) -> Value {
        json!({"case": describe_case(&prepare(tapes, &domain(), &SurfaceCfg::full())), "options": options_of(tapes).json()})
    }
    fn exhaustive(&self) -> bool {
        true
    }
    fn health(&self, _tier: Tier) -> Vec<(&'static str, u64)> {
        vec![("nontrivial", 3000), ("both", 500), ("process_runs_compared", 400)]
    }
}
