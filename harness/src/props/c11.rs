//! C11 — output depends only on document structure, not on incidental detail (metamorphic).

use super::common::*;
use crate::model::{decode_case, Domain};
use crate::refinf::infer_docs;
use crate::runner::{hash_of, Failure, Property, Stats, Tapes, Tier};
use crate::sut::{self, ReaderCfg, ReaderKind};
use crate::tape::Tape;
use crate::xmlser::{serialize_docs, SurfaceCfg};
use serde_json::{json, Value};

pub struct C11;

fn surf() -> SurfaceCfg {
    let mut s = SurfaceCfg::full();
    // "replacing ... non-empty text with other non-empty content": blank and non-blank text are interchangeable
    s.free_blankness = true;
    s
}

pub fn decode_reader(t: &mut Tape, allow_flags: bool) -> ReaderCfg {
    let kind = match t.choose(3) {
        0 => ReaderKind::Slice,
        1 => ReaderKind::Buf(*t.pick(&[1usize, 2, 3, 5, 7, 16, 64, 1024, 8192])),
        _ => ReaderKind::Chunk(*t.pick(&[1usize, 2, 3, 7, 64, 4096])),
    };
    let expand_empty = t.chance(100);
    let (trim_text, check_end_names) = if allow_flags { (t.chance(100), !t.chance(100)) } else { (false, true) };
    ReaderCfg { kind, expand_empty, trim_text, check_end_names }
}

struct Two {
    case: crate::model::Case,
    a: Vec<Vec<u8>>,
    b: Vec<Vec<u8>>,
    reader_b: ReaderCfg,
    opts: OptSpec,
    forms_differ: bool,
    cdata_differ: bool,
}

fn two(tapes: &Tapes) -> Two {
    let mut t = Tape::new(&tapes.a);
    let dom = if tapes.small { super::c05::domain().small() } else { super::c05::domain() };
    let case = decode_case(&mut t, &dom);
    let s = surf();
    let (a, _, sa) = serialize_docs(&case.docs, &tapes.b, &s);
    let mut tc = Tape::new(&tapes.c);
    let reader_b = decode_reader(&mut tc, false);
    let opts = decode_options(&mut tc);
    let rest = tc.rest();
    let (b, _, sb) = serialize_docs(&case.docs, rest, &s);
    Two {
        case,
        a,
        b,
        reader_b,
        opts,
        forms_differ: (sa.selfclosed != sb.selfclosed) || reader_b.expand_empty,
        cdata_differ: sa.cdata != sb.cdata,
    }
}

fn describe_two(t: &Two) -> Value {
    json!({
        "variant_a": t.a.iter().map(|b| String::from_utf8_lossy(b).to_string()).collect::<Vec<_>>(),
        "variant_b": t.b.iter().map(|b| String::from_utf8_lossy(b).to_string()).collect::<Vec<_>>(),
        "reader_b": format!("{:?}", t.reader_b),
        "options": t.opts.json(),
        "elem_pool": t.case.elem_pool,
    })
}

impl Property for C11 {
    fn id(&self) -> &'static str {
        "C11"
    }
    fn tape_sizes(&self) -> (usize, usize, usize) {
        (600, 400, 400)
    }
    fn cases(&self, tier: Tier) -> u64 {
        match tier {
            Tier::Quick => 40_000,
            Tier::Thorough => 3_000_000,
        }
    }
    fn check(&self, tapes: &Tapes, st: &mut Stats) -> Result<(), Failure> {
        let t = two(tapes);
        let schema = infer_docs(&t.case.docs);
        let coll = has_colliding_fields(&schema);
        if t.forms_differ {
            st.count("empty_element_forms_differ");
        }
        if t.cdata_differ {
            st.count("text_cdata_swaps");
        }
        if coll {
            st.count("colliding_identifiers");
        }
        if t.reader_b.expand_empty {
            st.count("expand_empty_elements");
        }
        st.count(match t.reader_b.kind {
            ReaderKind::Slice => "reader.slice",
            ReaderKind::Buf(_) => "reader.bufreader",
            ReaderKind::Chunk(_) => "reader.chunked",
        });
        if t.a != t.b && (t.forms_differ || t.cdata_differ) {
            st.count("variants_differ_in_bytes");
            if coll {
                st.nontrivial(hash_of(&(&t.case.docs, &t.a, &t.b)));
            }
        }
        st.sample(|| describe_two(&t));
        let ra = sut::parse_seq(&t.a).map_err(|(i, e)| Failure::new(format!("variant A document #{} rejected: {}", i + 1, e)).with_detail(describe_two(&t)))?;
        let rb = sut::parse_seq_with(&t.b, &t.reader_b).map_err(|(i, e)| Failure::new(format!("variant B document #{} rejected: {}", i + 1, e)).with_detail(describe_two(&t)))?;
        let o = t.opts.to_options();
        let (xa, xb) = (ra.to_serde_struct(&o), rb.to_serde_struct(&o));
        if xa != xb {
            let la: Vec<&str> = xa.lines().collect();
            let lb: Vec<&str> = xb.lines().collect();
            let i = (0..la.len().max(lb.len())).find(|i| la.get(*i) != lb.get(*i)).unwrap_or(0);
            return Err(Failure::new(format!(
                "two surface variants of the same structure render differently at line {}: `{}` vs `{}`",
                i + 1,
                la.get(i).unwrap_or(&"<eof>"),
                lb.get(i).unwrap_or(&"<eof>")
            ))
            .with_detail(json!({"case": describe_two(&t), "rendered_a": xa, "rendered_b": xb})));
        }
        Ok(())
    }
    fn rule(&self) -> String {
        "one tape-decoded structural model (document sequence, pools weighted towards colliding identifiers) is serialised twice with two independent surface tapes (attribute values, text content incl. blank vs non-blank, text vs CDATA, comments, PIs, declaration, DOCTYPE, BOM, `<x/>` vs `<x></x>`, whitespace in tags); variant B is additionally read through BufReader capacities 1..8192 or a chunked BufRead and optionally expand_empty_elements; renderings (arbitrary options) must be byte-identical. Non-trivial = the variants differ in an empty-element form or a text/CDATA swap and some struct has colliding field identifiers; distinct by hash of structure plus both byte variants.".into()
    }
    fn assumptions(&self) -> Vec<String> {
        vec![
            "empty CDATA is structural (a CDATA node without characters), not swapped with non-empty content".into(),
            "both variants are well-formed; malformed inputs are C07/C08".into(),
        ]
    }
    fn describe(&self, tapes: &Tapes) -> Value {
        describe_two(&two(tapes))
    }
    fn health(&self, _tier: Tier) -> Vec<(&'static str, u64)> {
        vec![("nontrivial", 3000), ("empty_element_forms_differ", 5000), ("text_cdata_swaps", 5000), ("expand_empty_elements", 2000), ("reader.chunked", 2000), ("reader.bufreader", 2000)]
    }
}
