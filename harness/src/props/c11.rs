//! C11 — output depends only on document structure, not on incidental detail (metamorphic).

use super::common::*;
use crate::model::decode_case;
use crate::refinf::infer_docs;
use crate::runner::{hash_of, Failure, Property, Stats, Tapes, Tier};
use crate::sut::{self, ReaderCfg, ReaderKind};
use crate::tape::Tape;
use crate::xmlser::{serialize_docs, SurfaceCfg};
use serde_json::{json, Value};

pub struct C11;

fn surf() -> SurfaceCfg {
    let mut s = SurfaceCfg::full();
    // "replacing ... non-empty text with other non-empty content": blank and non-blank text are interchangeable
    s.free_blankness = true;
    s
}

pub fn decode_reader(t: &mut Tape, allow_flags: bool) -> ReaderCfg {
    let kind = match t.choose(3) {
        0 => ReaderKind::Slice,
        1 => ReaderKind::Buf(*t.pick(&[1usize, 2, 3, 5, 7, 16, 64, 1024, 8192])),
        _ => ReaderKind::Chunk(*t.pick(&[1usize, 2, 3, 7, 64, 4096])),
    };
    let expand_empty = t.chance(100);
    let (trim_text, check_end_names) = if allow_flags { (t.chance(100), !t.chance(100)) } else { (false, true) };
    ReaderCfg { kind, expand_empty, trim_text, check_end_names }
}

struct Two {
    case: crate::model::Case,
    a: Vec<Vec<u8>>,
    b: Vec<Vec<u8>>,
    reader_b: ReaderCfg,
    opts: OptSpec,
    forms_differ: bool,
    cdata_differ: bool,
    entity_refs_differ: bool,
}

fn two(tapes: &Tapes) -> Two {
    let mut t = Tape::new(&tapes.a);
    let dom = if tapes.small { super::c05::domain().small() } else { super::c05::domain() };
    let case = decode_case(&mut t, &dom);
    let s = surf();
    let (a, _, sa) = serialize_docs(&case.docs, &tapes.b, &s);
    let mut tc = Tape::new(&tapes.c);
    let reader_b = decode_reader(&mut tc, false);
    let opts = decode_options(&mut tc);
    let rest = tc.rest();
    let (b, _, sb) = serialize_docs(&case.docs, rest, &s);
    Two {
        case,
        a,
        b,
        reader_b,
        opts,
        forms_differ: (sa.selfclosed != sb.selfclosed) || reader_b.expand_empty,
        cdata_differ: sa.cdata != sb.cdata,
        entity_refs_differ: (sa.entity_refs > 0) != (sb.entity_refs > 0),
    }
}

fn describe_two(t: &Two) -> Value {
    json!({
        "variant_a": t.a.iter().map(|b| String::from_utf8_lossy(b).to_string()).collect::<Vec<_>>(),
        "variant_b": t.b.iter().map(|b| String::from_utf8_lossy(b).to_string()).collect::<Vec<_>>(),
        "reader_b": format!("{:?}", t.reader_b),
        "options": t.opts.json(),
        "elem_pool": t.case.elem_pool,
    })
}


/// surface-variant oracle on one enumerated document sequence: canonical bytes versus the alternative surface form
/// (`<x></x>`, CDATA, comments, PIs, prolog, DOCTYPE, other attribute values), per document and all together, also through
/// expand_empty_elements and a 1-byte chunked reader
fn big_oracle(docs: &[&crate::model::Node], bytes: &[Vec<u8>]) -> Result<bool, String> {
    let alt: Vec<Vec<u8>> = docs.iter().map(|d| crate::xmlser::canonical_variant(d).into_bytes()).collect();
    let base = sut::parse_seq(bytes).map_err(|(i, e)| format!("document #{} rejected: {}", i + 1, e))?;
    let expect = base.to_serde_struct(&crate::sut::Options::quick_xml_de());
    let k = docs.len();
    for mask in 1..(1usize << k.min(2)) + 1 {
        // mask over the first two documents; the last round replaces every document
        let all = mask == (1usize << k.min(2));
        let seq: Vec<Vec<u8>> = (0..k).map(|i| if all || (i < 2 && mask >> i & 1 == 1) { alt[i].clone() } else { bytes[i].clone() }).collect();
        for cfg in [
            ReaderCfg::default_slice(),
            ReaderCfg { kind: ReaderKind::Chunk(1), expand_empty: false, trim_text: false, check_end_names: true },
            ReaderCfg { kind: ReaderKind::Slice, expand_empty: true, trim_text: false, check_end_names: true },
        ] {
            let r = sut::parse_seq_with(&seq, &cfg).map_err(|(i, e)| format!("variant document #{} rejected: {}", i + 1, e))?;
            if r.to_serde_struct(&crate::sut::Options::quick_xml_de()) != expect {
                return Err(format!("a surface variant of the same structures renders differently (variant mask {:b}, reader {:?})", mask, cfg));
            }
        }
        // the plain bytes through expand_empty_elements as well
        let r = sut::parse_seq_with(bytes, &ReaderCfg { kind: ReaderKind::Slice, expand_empty: true, trim_text: false, check_end_names: true }).map_err(|(i, e)| format!("document #{} rejected: {}", i + 1, e))?;
        if r.to_serde_struct(&crate::sut::Options::quick_xml_de()) != expect {
            return Err("reading the same bytes with expand_empty_elements renders differently".to_string());
        }
    }
    Ok(true)
}

impl Property for C11 {
    fn id(&self) -> &'static str {
        "C11"
    }
    fn tape_sizes(&self) -> (usize, usize, usize) {
        (600, 400, 400)
    }
    fn cases(&self, tier: Tier) -> u64 {
        match tier {
            Tier::Quick => 40_000,
            Tier::Thorough => 3_000_000,
        }
    }
    fn check(&self, tapes: &Tapes, st: &mut Stats) -> Result<(), Failure> {
        let t = two(tapes);
        let schema = infer_docs(&t.case.docs);
        let coll = has_colliding_fields(&schema);
        if t.forms_differ {
            st.count("empty_element_forms_differ");
        }
        if t.cdata_differ {
            st.count("text_cdata_swaps");
        }
        if t.entity_refs_differ {
            st.count("text_vs_general_entity_reference");
        }
        if coll {
            st.count("colliding_identifiers");
        }
        if t.reader_b.expand_empty {
            st.count("expand_empty_elements");
        }
        st.count(match t.reader_b.kind {
            ReaderKind::Slice => "reader.slice",
            ReaderKind::Buf(_) => "reader.bufreader",
            ReaderKind::Chunk(_) => "reader.chunked",
        });
        if t.a != t.b && (t.forms_differ || t.cdata_differ) {
            st.count("variants_differ_in_bytes");
            if coll {
                st.nontrivial(hash_of(&(&t.case.docs, &t.a, &t.b)));
            }
        }
        st.sample(|| describe_two(&t));
        let ra = sut::parse_seq(&t.a).map_err(|(i, e)| Failure::new(format!("variant A document #{} rejected: {}", i + 1, e)).with_detail(describe_two(&t)))?;
        let rb = sut::parse_seq_with(&t.b, &t.reader_b).map_err(|(i, e)| Failure::new(format!("variant B document #{} rejected: {}", i + 1, e)).with_detail(describe_two(&t)))?;
        let o = t.opts.to_options();
        let (xa, xb) = (ra.to_serde_struct(&o), rb.to_serde_struct(&o));
        if xa != xb {
            let la: Vec<&str> = xa.lines().collect();
            let lb: Vec<&str> = xb.lines().collect();
            let i = (0..la.len().max(lb.len())).find(|i| la.get(*i) != lb.get(*i)).unwrap_or(0);
            return Err(Failure::new(format!(
                "two surface variants of the same structure render differently at line {}: `{}` vs `{}`",
                i + 1,
                la.get(i).unwrap_or(&"<eof>"),
                lb.get(i).unwrap_or(&"<eof>")
            ))
            .with_detail(json!({"case": describe_two(&t), "rendered_a": xa, "rendered_b": xb})));
        }
        Ok(())
    }
    fn extra(&self, tier: Tier, _seed: u64, st: &mut Stats) -> Result<(), (Failure, Value)> {
        // small-scope exhaustive part: every ordered pair of small documents in two fixed surface forms
        // (`<x/>`, text, no prolog  versus  `<x></x>`, CDATA, comments, PIs, prolog, DOCTYPE, other attribute values),
        // all four combinations of forms over the two documents, second form also through a 1-byte chunked reader
        let max_nodes = match tier {
            Tier::Quick => 3,
            Tier::Thorough => 4,
        };
        let (evals, nts, fail) = super::smallscope::run_tuples(max_nodes, 2, |docs, bytes| {
            let alt: Vec<Vec<u8>> = docs.iter().map(|d| crate::xmlser::canonical_variant(d).into_bytes()).collect();
            let base = sut::parse_seq(bytes).map_err(|(i, e)| format!("document #{} rejected: {}", i + 1, e))?;
            let expect = base.to_serde_struct(&crate::sut::Options::quick_xml_de());
            for mask in 1..4usize {
                let seq: Vec<Vec<u8>> = (0..2).map(|i| if mask >> i & 1 == 1 { alt[i].clone() } else { bytes[i].clone() }).collect();
                let cfg = ReaderCfg { kind: if mask == 3 { ReaderKind::Chunk(1) } else { ReaderKind::Slice }, expand_empty: mask == 2, trim_text: false, check_end_names: true };
                let r = sut::parse_seq_with(&seq, &cfg).map_err(|(i, e)| format!("variant document #{} rejected: {}", i + 1, e))?;
                let got = r.to_serde_struct(&crate::sut::Options::quick_xml_de());
                if got != expect {
                    return Err(format!("surface variant {:02b} of the same two structures renders differently:\n--- plain\n{}\n--- variant ({})\n{}", mask, expect, String::from_utf8_lossy(&seq.concat()), got));
                }
            }
            Ok(true)
        });
        st.evaluations += evals;
        st.nontrivial_enumerated += nts;
        st.add("exhaustive.pairs_in_two_surface_forms", evals);
        if let Some((e, docs)) = fail {
            return Err((Failure::new(format!("small-scope exhaustive search: {}", e)).with_detail(json!({"documents": docs})), json!({"small_scope_documents": docs})));
        }
        // families beyond the small scope, and the occurrence thresholds of C03 (an element seen ~1000 times and more)
        {
            let (n, fail) = super::smallscope::run_big_families(big_oracle);
            st.evaluations += n;
            st.nontrivial_enumerated += n;
            st.add("big_families", n);
            if let Some((label, e, docs)) = fail {
                return Err((Failure::new(format!("family `{}`: {}", label, e)).with_detail(json!({"documents": docs})), json!({"big_family": label})));
            }
            for n in [1000usize, 1001, 1023, 1024, 1025, 4097] {
                for docs in super::smallscope::threshold_family(n) {
                    let refs: Vec<&crate::model::Node> = docs.iter().collect();
                    let bytes: Vec<Vec<u8>> = docs.iter().map(|d| crate::xmlser::canonical(d).into_bytes()).collect();
                    st.evaluations += 1;
                    st.count("threshold_family.cases");
                    if let Err(e) = big_oracle(&refs, &bytes) {
                        return Err((Failure::new(format!("threshold family n={}: {}", n, e)), json!({"threshold_n": n})));
                    }
                }
            }
        }
        Ok(())
    }
    fn replay_custom(&self, payload: &Value) -> Result<(), Failure> {
        if let Some(l) = payload["big_family"].as_str() {
            return super::smallscope::replay_big_family(l, big_oracle).map_err(Failure::new);
        }
        if let Some(n) = payload["threshold_n"].as_u64() {
            for docs in super::smallscope::threshold_family(n as usize) {
                let refs: Vec<&crate::model::Node> = docs.iter().collect();
                let bytes: Vec<Vec<u8>> = docs.iter().map(|d| crate::xmlser::canonical(d).into_bytes()).collect();
                big_oracle(&refs, &bytes).map_err(|e| Failure::new(format!("threshold family n={}: {}", n, e)))?;
            }
            return Ok(());
        }
        // the saved documents are in canonical form; rebuild the DOM with the mini parser of C03's replay by delegating the structural part
        let docs: Vec<Vec<u8>> = payload["small_scope_documents"].as_array().map(|a| a.iter().map(|d| d.as_str().unwrap_or("").as_bytes().to_vec()).collect()).unwrap_or_default();
        let base = sut::parse_seq(&docs).map_err(|(i, e)| Failure::new(format!("document #{} rejected: {}", i + 1, e)))?;
        let expect = base.to_serde_struct(&crate::sut::Options::quick_xml_de());
        // `<x/>` -> `<x></x>` is the rewrite that can be applied textually without a DOM
        let alt: Vec<Vec<u8>> = docs
            .iter()
            .map(|d| {
                let s = String::from_utf8_lossy(d).to_string();
                let mut out = String::new();
                let mut rest = s.as_str();
                while let Some(i) = rest.find("/>") {
                    let start = rest[..i].rfind('<').unwrap_or(0);
                    let name: String = rest[start + 1..i].chars().take_while(|c| !c.is_whitespace()).collect();
                    out.push_str(&rest[..i]);
                    out.push_str(&format!("></{}>", name));
                    rest = &rest[i + 2..];
                }
                out.push_str(rest);
                out.into_bytes()
            })
            .collect();
        for cfg in [ReaderCfg::default_slice(), ReaderCfg { kind: ReaderKind::Chunk(1), expand_empty: true, trim_text: false, check_end_names: true }] {
            for seq in [&alt, &docs] {
                let r = sut::parse_seq_with(seq, &cfg).map_err(|(i, e)| Failure::new(format!("variant document #{} rejected: {}", i + 1, e)))?;
                if r.to_serde_struct(&crate::sut::Options::quick_xml_de()) != expect {
                    return Err(Failure::new("surface variant of the saved documents renders differently"));
                }
            }
        }
        Ok(())
    }
    fn exhaustive(&self) -> bool {
        true
    }
    fn rule(&self) -> String {
        "small-scope exhaustive: every ordered pair of documents over {r; a,b; k; text} with <= 3 (thorough: 4) elements, each document in two fixed surface forms (all combinations, plus expand_empty_elements and a 1-byte chunked reader); sampled: one tape-decoded structural model (document sequence, pools weighted towards colliding identifiers) is serialised twice with two independent surface tapes (attribute values, text content incl. blank vs non-blank, predefined / numeric references and references to general entities declared in the internal DTD subset, text vs CDATA, comments, PIs, declaration, DOCTYPE, BOM, `<x/>` vs `<x></x>`, whitespace in tags); variant B is additionally read through BufReader capacities 1..8192 or a chunked BufRead and optionally expand_empty_elements; renderings (arbitrary options) must be byte-identical. Non-trivial = the variants differ in an empty-element form or a text/CDATA swap and some struct has colliding field identifiers; distinct by hash of structure plus both byte variants.".into()
    }
    fn assumptions(&self) -> Vec<String> {
        vec![
            "empty CDATA is structural (a CDATA node without characters), not swapped with non-empty content".into(),
            "both variants are well-formed; malformed inputs are C07/C08".into(),
        ]
    }
    fn describe(&self, tapes: &Tapes) -> Value {
        describe_two(&two(tapes))
    }
    fn health(&self, _tier: Tier) -> Vec<(&'static str, u64)> {
        vec![("nontrivial", 3000), ("empty_element_forms_differ", 5000), ("text_cdata_swaps", 5000), ("text_vs_general_entity_reference", 1000), ("expand_empty_elements", 2000), ("reader.chunked", 2000), ("reader.bufreader", 2000)]
    }
}
