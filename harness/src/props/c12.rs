//! C12 — the command-line program is the library plus a header, and fails cleanly.

use crate::bytesgen::mutate;
use crate::model::{decode_case, Domain};
use crate::runner::{hash_of, verif_root, Failure, Property, Stats, Tapes, Tier};
use crate::sut::{into_struct, Options, SortBy};
use crate::tape::Tape;
use crate::xmlser::{serialize_docs, SurfaceCfg};
use quick_xml::reader::Reader;
use serde_json::{json, Value};
use std::path::{Path, PathBuf};
use std::sync::atomic::{AtomicU64, Ordering};

pub struct C12;

const HEADER: &str = "use serde::{Deserialize, Serialize};\n\n";
static COUNTER: AtomicU64 = AtomicU64::new(0);

fn cli_path() -> PathBuf {
    std::env::var("XSGV_CLI").map(PathBuf::from).unwrap_or_else(|_| verif_root().join("target/cli/release/xml_schema_generator"))
}

#[derive(Clone, Debug)]
enum InputKind {
    Valid,
    Damaged,
    NotUtf8,
    Missing,
    Directory,
    Empty,
    /// a valid document that does not come from a regular file: the program reads /dev/stdin, which is a pipe
    /// (as with `cmd | xml_schema_generator /dev/stdin` or process substitution); its reported size is 0
    Pipe,
}

#[derive(Clone, Debug, PartialEq)]
enum OutputKind {
    Stdout,
    NewFile,
    ExistingFile,
    MissingDir,
    IsDirectory,
    BelowRegularFile,
    /// the output path is a symbolic link whose target (in an existing directory) does not exist yet
    DanglingSymlink,
    /// the output path is a symbolic link to an existing file
    SymlinkToExisting,
    /// the output path is the input file itself
    SameAsInput,
    /// the output path exists and is not a regular file: the character device /dev/null
    DevNull,
    /// the output path exists and is not a regular file: a named pipe with a reader at the other end
    Fifo,
}

#[derive(Clone, Debug)]
struct Scenario {
    input_kind: InputKind,
    input: Vec<u8>,
    parser: Option<&'static str>, // None = default
    parser_short: bool,
    derive: Option<String>,
    sort: Option<&'static str>,
    output: OutputKind,
    args_first: bool,
    /// an existing output file is longer than anything the program writes (stale bytes must not survive)
    long_existing: bool,
    /// an existing output file has exactly the length of the new output but other content
    same_length_existing: bool,
    /// an existing output file is empty (e.g. made by touch / mktemp)
    empty_existing: bool,
    /// after a successful run into a file, run again into the same file with changed options
    rerun: bool,
    /// 0: `--opt=value`, 1: `--opt value`, 2: `-o value`
    arg_style: usize,
    /// file names with blanks and non-ASCII characters
    odd_names: bool,
    /// the input path is a symbolic link to the file that holds the document
    input_symlink: bool,
}

const CLI_DERIVES: &[&str] = &[
    "Serialize, Deserialize",
    "",
    "Debug",
    "Debug, Clone, PartialEq",
    " Debug ",
    "-x",
    "--help",
    "serde::Serialize",
    "é, 名",
    "A(B)",
    "\"q\"",
    "a\nb",
    "$HOME `x` \\",
    "=",
    "Debug, Clone, Debug",
    "Serialize, Deserialize, Serialize, Debug, PartialEq",
];

fn decode(tapes: &Tapes) -> Scenario {
    let mut m = Tape::new(&tapes.c);
    let input_kind = match m.weighted(&[20, 8, 4, 2, 2, 2, 3]) {
        0 => InputKind::Valid,
        1 => InputKind::Damaged,
        2 => InputKind::NotUtf8,
        3 => InputKind::Missing,
        4 => InputKind::Directory,
        5 => InputKind::Empty,
        _ => InputKind::Pipe,
    };
    let parser = *m.pick(&[None, Some("quick-xml-de"), Some("serde-xml-rs")]);
    let parser_short = m.chance(128);
    let derive = if m.chance(150) { Some(m.pick(CLI_DERIVES).to_string()) } else { None };
    let sort = *m.pick(&[None, Some("unsorted"), Some("name")]);
    let output = match m.weighted(&[24, 16, 12, 4, 4, 4, 2, 2, 2, 1, 2]) {
        0 => OutputKind::Stdout,
        1 => OutputKind::NewFile,
        2 => OutputKind::ExistingFile,
        3 => OutputKind::MissingDir,
        4 => OutputKind::IsDirectory,
        5 => OutputKind::BelowRegularFile,
        6 => OutputKind::DanglingSymlink,
        7 => OutputKind::SymlinkToExisting,
        8 => OutputKind::SameAsInput,
        9 => OutputKind::DevNull,
        _ => OutputKind::Fifo,
    };
    let args_first = m.chance(128);
    let long_existing = m.chance(128);
    let arg_style = m.choose(3);
    let odd_names = m.chance(90);
    let same_length_existing = m.chance(90);
    let empty_existing = m.chance(50);
    let mut rerun = m.chance(110);
    let input_symlink = m.chance(40);
    let mut output = output;
    if matches!(input_kind, InputKind::Pipe) {
        // a pipe can be read once and cannot be the output
        rerun = false;
        if output == OutputKind::SameAsInput {
            output = OutputKind::NewFile;
        }
    }
    if matches!(output, OutputKind::DevNull | OutputKind::Fifo) {
        // nothing to compare a second run with
        rerun = false;
    }
    let mut t = Tape::new(&tapes.a);
    let mut dom = Domain::general();
    dom.no_prefix_clash = false;
    dom.max_docs = 1;
    dom.max_nodes = 20;
    let case = decode_case(&mut t, &dom);
    let mut surf = SurfaceCfg::full();
    surf.legacy_decl_any = true;
    let (bytes, _, _) = serialize_docs(&case.docs, &tapes.b, &surf);
    let mut input = bytes.into_iter().next().unwrap_or_default();
    match input_kind {
        InputKind::Damaged => {
            let other = input.clone();
            mutate(&mut m, &mut input, &other);
            // keep it UTF-8 so that the parser, not the file reader, decides
            input = String::from_utf8_lossy(&input).into_owned().into_bytes();
        }
        InputKind::NotUtf8 => {
            let p = if input.is_empty() { 0 } else { m.choose(input.len().min(255)) };
            input.insert(p.min(input.len()), 0xff);
        }
        InputKind::Empty => input = m.pick(&["", " ", "<!-- c -->", "text only"]).as_bytes().to_vec(),
        _ => {}
    }
    Scenario { input_kind, input, parser, parser_short, derive, sort, output, args_first, long_existing, arg_style, odd_names, same_length_existing, empty_existing, rerun, input_symlink }
}

fn describe(s: &Scenario) -> Value {
    json!({
        "input_kind": format!("{:?}", s.input_kind),
        "input": String::from_utf8_lossy(&s.input),
        "parser": s.parser,
        "derive": s.derive,
        "sort": s.sort,
        "output": format!("{:?}", s.output),
    })
}

/// what the library says for this input and these options (the CLI must add only the header)
fn library(s: &Scenario) -> Result<String, String> {
    let xml = std::str::from_utf8(&s.input).map_err(|e| format!("not UTF-8: {}", e))?;
    let mut reader = Reader::from_str(xml);
    let root = into_struct(&mut reader).map_err(|e| format!("{}", e))?;
    let mut o = match s.parser {
        Some("serde-xml-rs") => Options::serde_xml_rs(),
        _ => Options::quick_xml_de(),
    };
    o = o.derive(s.derive.as_deref().unwrap_or("Serialize, Deserialize"));
    o.sort = match s.sort {
        Some("name") => SortBy::XmlName,
        _ => SortBy::Unsorted,
    };
    Ok(root.to_serde_struct(&o))
}

/// sizes a maintainer might choose for a read or write buffer
const BOUNDARIES: &[usize] = &[4096, 8192, 16384, 24576, 32768, 65536];

fn plain_scenario(input: Vec<u8>, output: OutputKind) -> Scenario {
    Scenario {
        input_kind: InputKind::Valid,
        input,
        parser: None,
        parser_short: false,
        derive: None,
        sort: None,
        output,
        args_first: false,
        long_existing: false,
        same_length_existing: false,
        empty_existing: false,
        rerun: false,
        input_symlink: false,
        arg_style: 0,
        odd_names: false,
    }
}

/// deterministic family: input files with a multi-byte character straddling (or touching) every buffer boundary at
/// every alignment, and inputs whose output (header + rendering, plus the newline on stdout) has exactly a boundary's
/// length, one byte less and one byte more
fn boundary_scenarios() -> Vec<(String, Scenario)> {
    let mut out = Vec::new();
    for &b in BOUNDARIES {
        for ch in ["é", "€", "𝄞"] {
            for k in 0..=ch.len() {
                // the character starts k bytes before the boundary
                let mut doc = String::from("<a>");
                while doc.len() < b - k {
                    doc.push('x');
                }
                doc.push_str(ch);
                doc.push_str(ch);
                doc.push_str("</a>");
                for o in [OutputKind::Stdout, OutputKind::NewFile] {
                    out.push((format!("input with `{}` starting {} bytes before offset {} ({:?})", ch, k, b, o), plain_scenario(doc.clone().into_bytes(), o)));
                }
            }
        }
    }
    // exact output lengths: n text-leaf children, the last one's name padded
    let doc_for = |n: usize, last_len: usize| -> String {
        let mut d = String::from("<r>");
        for i in 0..n {
            d.push_str(&format!("<c{}>t</c{}>", i, i));
        }
        let last: String = std::iter::once('z').chain(std::iter::repeat('y').take(last_len.saturating_sub(1))).collect();
        d.push_str(&format!("<{}>t</{}>", last, last));
        d.push_str("</r>");
        d
    };
    let total = |doc: &str| -> usize { library(&plain_scenario(doc.as_bytes().to_vec(), OutputKind::Stdout)).map(|r| HEADER.len() + r.len()).unwrap_or(0) };
    for &b in &BOUNDARIES[..3] {
        // largest n whose output stays below the boundary, then pad the last name
        let mut n = 1;
        while total(&doc_for(n + 1, 1)) + 40 < b {
            n += 1;
        }
        let base = total(&doc_for(n, 1));
        for target in [b - 2, b - 1, b, b + 1] {
            if target <= base {
                continue;
            }
            let doc = doc_for(n, 1 + target - base);
            if total(&doc) != target {
                continue;
            }
            for o in [OutputKind::Stdout, OutputKind::NewFile, OutputKind::ExistingFile] {
                out.push((format!("output of exactly {} bytes before the final newline ({:?})", target, o), plain_scenario(doc.clone().into_bytes(), o)));
            }
        }
    }
    // output that is not a regular file: /dev/null and a named pipe, small and beyond the pipe capacity
    for n in [1usize, 2500] {
        for o in [OutputKind::DevNull, OutputKind::Fifo] {
            let label = format!("{} text children, output into {:?}", n, o);
            out.push((label, plain_scenario(doc_for(n, 1).into_bytes(), o)));
        }
    }
    // input that is not a regular file (a pipe: reported size 0), of sizes below and above the pipe capacity
    for n in [1usize, 50, 4096, 65536, 70000, 200_000] {
        let mut doc = String::from("<a k=\"v\"><b>");
        while doc.len() < n {
            doc.push('x');
        }
        doc.push_str("</b></a>");
        for o in [OutputKind::Stdout, OutputKind::NewFile] {
            let label = format!("input of about {} bytes read from a pipe ({:?})", n, o);
            let mut sc = plain_scenario(doc.clone().into_bytes(), o);
            sc.input_kind = InputKind::Pipe;
            out.push((label, sc));
        }
    }
    out
}

fn run(s: &Scenario, dir: &Path) -> Result<(), String> {
    std::fs::create_dir_all(dir).map_err(|e| format!("INFRA mkdir: {}", e))?;
    let (in_name, out_name) = if s.odd_names { ("in put é 名.xml", "out put é 名.rs") } else { ("input.xml", "out.rs") };
    let input_path = if matches!(s.input_kind, InputKind::Pipe) { PathBuf::from("/dev/stdin") } else { dir.join(in_name) };
    match s.input_kind {
        InputKind::Missing | InputKind::Pipe => {}
        InputKind::Directory => std::fs::create_dir_all(&input_path).map_err(|e| format!("INFRA: {}", e))?,
        _ if s.input_symlink && s.output != OutputKind::SameAsInput => {
            let real = dir.join("the real input.xml");
            std::fs::write(&real, &s.input).map_err(|e| format!("INFRA: {}", e))?;
            std::os::unix::fs::symlink("the real input.xml", &input_path).map_err(|e| format!("INFRA symlink: {}", e))?;
        }
        _ => std::fs::write(&input_path, &s.input).map_err(|e| format!("INFRA: {}", e))?,
    }
    let same_len: Option<Vec<u8>> = match (s.same_length_existing, library(s)) {
        (true, Ok(r)) => Some(vec![b'#'; HEADER.len() + r.len()]),
        _ => None,
    };
    let old_content: Vec<u8> = if s.empty_existing {
        Vec::new()
    } else if let Some(g) = same_len {
        g
    } else if s.long_existing { b"// previous content of the output file\n".repeat(400) } else { b"// previous content\n".to_vec() };
    let old: &[u8] = &old_content;
    let out_path: Option<PathBuf> = match s.output {
        OutputKind::Stdout => None,
        OutputKind::NewFile => Some(dir.join(out_name)),
        OutputKind::ExistingFile => {
            let p = dir.join(out_name);
            std::fs::write(&p, old).map_err(|e| format!("INFRA: {}", e))?;
            Some(p)
        }
        OutputKind::MissingDir => Some(dir.join("no_such_dir").join("out.rs")),
        OutputKind::IsDirectory => {
            let p = dir.join("outdir");
            std::fs::create_dir_all(&p).map_err(|e| format!("INFRA: {}", e))?;
            Some(p)
        }
        OutputKind::BelowRegularFile => {
            let f = dir.join("regular");
            std::fs::write(&f, b"x").map_err(|e| format!("INFRA: {}", e))?;
            Some(f.join("out.rs"))
        }
        OutputKind::DanglingSymlink | OutputKind::SymlinkToExisting => {
            let gen = dir.join("gen");
            std::fs::create_dir_all(&gen).map_err(|e| format!("INFRA: {}", e))?;
            let target = gen.join("target.rs");
            if s.output == OutputKind::SymlinkToExisting {
                std::fs::write(&target, old).map_err(|e| format!("INFRA: {}", e))?;
            }
            let link = dir.join(out_name);
            std::os::unix::fs::symlink(&target, &link).map_err(|e| format!("INFRA symlink: {}", e))?;
            Some(link)
        }
        OutputKind::DevNull => Some(PathBuf::from("/dev/null")),
        OutputKind::Fifo => {
            let p = dir.join(out_name);
            let c = std::ffi::CString::new(std::os::unix::ffi::OsStrExt::as_bytes(p.as_os_str())).map_err(|e| format!("INFRA: {}", e))?;
            if unsafe { libc::mkfifo(c.as_ptr(), 0o600) } != 0 {
                return Err(format!("INFRA mkfifo: {}", std::io::Error::last_os_error()));
            }
            Some(p)
        }
        OutputKind::SameAsInput if matches!(s.input_kind, InputKind::Pipe) => Some(dir.join(out_name)),
        OutputKind::SameAsInput => Some(input_path.clone()),
    };
    let link_target = dir.join("gen").join("target.rs");
    let is_link = |p: &Path| std::fs::symlink_metadata(p).map(|m| m.file_type().is_symlink()).unwrap_or(false);
    let mut opt_args: Vec<String> = Vec::new();
    let mut push_opt = |long: &str, short: &str, value: &str, style: usize| {
        // a value that starts with '-' can only be passed with '='
        let style = if value.starts_with('-') { 0 } else { style };
        match style {
            0 => opt_args.push(format!("--{}={}", long, value)),
            1 => {
                opt_args.push(format!("--{}", long));
                opt_args.push(value.to_string());
            }
            _ => {
                opt_args.push(format!("-{}", short));
                opt_args.push(value.to_string());
            }
        }
    };
    if let Some(p) = s.parser {
        push_opt("parser", "p", p, if s.parser_short { 2 } else { s.arg_style });
    }
    if let Some(d) = &s.derive {
        push_opt("derive", "d", d, s.arg_style);
    }
    if let Some(so) = s.sort {
        push_opt("sort", "s", so, (s.arg_style + 1) % 3);
    }
    let mut pos_args: Vec<std::ffi::OsString> = vec![input_path.clone().into()];
    if let Some(p) = &out_path {
        pos_args.push(p.clone().into());
    }
    let mut cmd = std::process::Command::new(cli_path());
    if s.args_first {
        cmd.args(&opt_args).args(&pos_args);
    } else {
        cmd.args(&pos_args).args(&opt_args);
    }
    cmd.env_remove("RUST_LOG").current_dir(dir);
    // what a reader at the other end of a named pipe received
    let mut fifo_bytes: Vec<u8> = Vec::new();
    let out = if matches!(s.input_kind, InputKind::Pipe) || s.output == OutputKind::Fifo {
        use std::io::{Read, Write};
        // the read end is opened (non-blocking) before the program starts, so that its open() for writing returns at once
        let mut fifo_reader = match (&s.output, &out_path) {
            (OutputKind::Fifo, Some(p)) => {
                use std::os::unix::fs::OpenOptionsExt;
                Some(std::fs::OpenOptions::new().read(true).custom_flags(libc::O_NONBLOCK).open(p).map_err(|e| format!("INFRA open fifo: {}", e))?)
            }
            _ => None,
        };
        let mut child = cmd
            .stdin(if matches!(s.input_kind, InputKind::Pipe) { std::process::Stdio::piped() } else { std::process::Stdio::null() })
            .stdout(std::process::Stdio::piped())
            .stderr(std::process::Stdio::piped())
            .spawn()
            .map_err(|e| format!("INFRA cannot run {}: {}", cli_path().display(), e))?;
        let writer = child.stdin.take().map(|mut stdin| {
            let data = s.input.clone();
            // a program that fails early closes the pipe: the write error is expected then
            std::thread::spawn(move || {
                let _ = stdin.write_all(&data);
            })
        });
        let waiter = std::thread::spawn(move || child.wait_with_output());
        if let Some(r) = fifo_reader.as_mut() {
            let started = std::time::Instant::now();
            let mut buf = [0u8; 65536];
            let mut exited_seen = false;
            loop {
                match r.read(&mut buf) {
                    Ok(0) | Err(_) => {
                        // no data right now (EAGAIN) or no writer (0): done once the program has gone and the pipe is drained
                        if exited_seen {
                            break;
                        }
                        if waiter.is_finished() {
                            exited_seen = true;
                            continue;
                        }
                        if started.elapsed().as_secs() > 60 {
                            return Err("INFRA the program did not finish within 60 s while writing into a named pipe".into());
                        }
                        std::thread::sleep(std::time::Duration::from_millis(1));
                    }
                    Ok(n) => fifo_bytes.extend_from_slice(&buf[..n]),
                }
            }
        }
        let out = waiter.join().map_err(|_| "INFRA wait thread panicked".to_string())?.map_err(|e| format!("INFRA wait: {}", e))?;
        if let Some(w) = writer {
            let _ = w.join();
        }
        out
    } else {
        cmd.output().map_err(|e| format!("INFRA cannot run {}: {}", cli_path().display(), e))?
    };
    let code = out.status.code();
    let lib = library(s);
    let input_ok = !matches!(s.input_kind, InputKind::Missing | InputKind::Directory) && lib.is_ok();
    let output_ok = matches!(
        s.output,
        OutputKind::Stdout
            | OutputKind::NewFile
            | OutputKind::ExistingFile
            | OutputKind::DanglingSymlink
            | OutputKind::SymlinkToExisting
            | OutputKind::SameAsInput
            | OutputKind::DevNull
            | OutputKind::Fifo
    );
    let stdout = String::from_utf8_lossy(&out.stdout).to_string();
    let stderr = String::from_utf8_lossy(&out.stderr).to_string();
    if input_ok && output_ok && s.output == OutputKind::SameAsInput && code == Some(1) {
        // refusing to overwrite one's own input is a safety feature the statement does not rule out: it must then be a
        // clean failure (diagnostic, nothing on stdout, the file untouched)
        if !stdout.is_empty() || stderr.trim().is_empty() {
            return Err("input and output are the same file: the run failed, but not cleanly (stdout not empty or no diagnostic)".into());
        }
        let now = std::fs::read(&input_path).map_err(|e| format!("the input file vanished: {}", e))?;
        if now != s.input {
            return Err("input and output are the same file: the run failed but the file was modified".into());
        }
        return Ok(());
    }
    if input_ok && output_ok {
        let expected = format!("{}{}", HEADER, lib.as_ref().unwrap());
        if code != Some(0) {
            return Err(format!("valid input and creatable output but exit status {:?}, stderr `{}`", code, stderr.trim()));
        }
        match &out_path {
            None => {
                if stdout != format!("{}\n", expected) {
                    return Err(format!("stdout is not header + library rendering + newline:\n--- expected\n{}\n--- got\n{}", expected, stdout));
                }
                if dir.join(out_name).exists() {
                    return Err("an output file appeared although none was named".into());
                }
            }
            Some(p) => {
                if !stdout.is_empty() {
                    return Err(format!("output file named but stdout is not empty: `{}`", stdout));
                }
                // a device swallows the bytes; a named pipe hands them to its reader
                let got = match s.output {
                    OutputKind::DevNull => expected.as_bytes().to_vec(),
                    OutputKind::Fifo => fifo_bytes.clone(),
                    _ => std::fs::read(p).map_err(|e| format!("output file unreadable: {}", e))?,
                };
                if got != expected.as_bytes() {
                    return Err(format!("output file is not header + library rendering:\n--- expected\n{}\n--- got\n{}", expected, String::from_utf8_lossy(&got)));
                }
                // a symbolic link as output path: the statement only says that the named path holds the output afterwards
                // (checked above by reading through it); whether the program writes through the link or replaces it by a
                // regular file (as an atomic temp-file-and-rename write does) is left open
                if matches!(s.output, OutputKind::DanglingSymlink | OutputKind::SymlinkToExisting) && is_link(p) {
                    let through = std::fs::read(&link_target).map_err(|e| format!("the output link was kept but its target was not written: {}", e))?;
                    if through != expected.as_bytes() {
                        return Err("the output link was kept but its target does not hold header + library rendering".into());
                    }
                }
                if s.rerun && s.output != OutputKind::SameAsInput {
                    // a second run into the same file with other options of (often) the same output length
                    let mut s2 = s.clone();
                    s2.rerun = false;
                    s2.sort = match s.sort {
                        Some("name") => Some("unsorted"),
                        _ => Some("name"),
                    };
                    s2.derive = match s.derive.as_deref() {
                        Some("Debug, Clone, PartialEq") => Some("Clone, Debug, PartialEq".to_string()),
                        Some(d) => Some(d.chars().rev().collect()),
                        None => Some("Deserialize, Serialize".to_string()),
                    };
                    let lib2 = library(&s2).map_err(|e| format!("INFRA second rendering failed: {}", e))?;
                    let expected2 = format!("{}{}", HEADER, lib2);
                    let mut cmd2 = std::process::Command::new(cli_path());
                    cmd2.arg(format!("--sort={}", s2.sort.unwrap_or("unsorted"))).arg(format!("--derive={}", s2.derive.clone().unwrap_or_default()));
                    if let Some(pp) = s.parser {
                        cmd2.arg(format!("--parser={}", pp));
                    }
                    cmd2.arg(&input_path).arg(p).env_remove("RUST_LOG").current_dir(dir);
                    let out2 = cmd2.output().map_err(|e| format!("INFRA cannot run cli: {}", e))?;
                    if out2.status.code() != Some(0) {
                        return Err(format!("second run into the same file failed: {:?} {}", out2.status.code(), String::from_utf8_lossy(&out2.stderr)));
                    }
                    let got2 = std::fs::read(p).map_err(|e| format!("output file unreadable after the second run: {}", e))?;
                    if got2 != expected2.as_bytes() {
                        return Err(format!(
                            "after a second run into the same file with --sort={} --derive={:?} the file is not header + library rendering for those options ({} bytes expected, same length as before: {}):\n--- expected\n{}\n--- got\n{}",
                            s2.sort.unwrap_or(""),
                            s2.derive,
                            expected2.len(),
                            expected2.len() == expected.len(),
                            expected2,
                            String::from_utf8_lossy(&got2)
                        ));
                    }
                }
            }
        }
        Ok(())
    } else {
        if code != Some(1) {
            return Err(format!("expected failure with exit status 1 (input ok: {}, output creatable: {}), got {:?}; stdout `{}`", input_ok, output_ok, code, stdout));
        }
        if !stdout.is_empty() {
            return Err(format!("failure but stdout is not empty: `{}`", stdout));
        }
        if stderr.trim().is_empty() {
            return Err("failure without a diagnostic on stderr".into());
        }
        if !input_ok {
            // the named output path is neither created nor modified
            match s.output {
                OutputKind::NewFile => {
                    if dir.join(out_name).exists() {
                        return Err("the input was at fault but the output file was created".into());
                    }
                }
                OutputKind::ExistingFile => {
                    let now = std::fs::read(dir.join(out_name)).map_err(|e| format!("existing output file vanished: {}", e))?;
                    if now != old {
                        return Err(format!("the input was at fault but the existing output file was modified (now {} bytes)", now.len()));
                    }
                }
                OutputKind::Fifo => {
                    if !fifo_bytes.is_empty() {
                        return Err(format!("the input was at fault but {} bytes were written into the named pipe given as output", fifo_bytes.len()));
                    }
                }
                OutputKind::MissingDir => {
                    if dir.join("no_such_dir").exists() {
                        return Err("the input was at fault but the output directory was created".into());
                    }
                }
                OutputKind::DanglingSymlink => {
                    if link_target.exists() {
                        return Err("the input was at fault but the target of the (dangling) output link was created".into());
                    }
                    if !is_link(&dir.join(out_name)) {
                        return Err("the input was at fault but the output link was removed or replaced".into());
                    }
                }
                OutputKind::SymlinkToExisting => {
                    let now = std::fs::read(&link_target).map_err(|e| format!("target of the output link vanished: {}", e))?;
                    if now != old {
                        return Err("the input was at fault but the target of the output link was modified".into());
                    }
                    if !is_link(&dir.join(out_name)) {
                        return Err("the input was at fault but the output link was removed or replaced".into());
                    }
                }
                OutputKind::SameAsInput => match s.input_kind {
                    InputKind::Missing => {
                        if input_path.exists() {
                            return Err("the input was missing but a file of its name (also named as output) was created".into());
                        }
                    }
                    InputKind::Directory | InputKind::Pipe => {}
                    _ => {
                        let now = std::fs::read(&input_path).map_err(|e| format!("the input file vanished: {}", e))?;
                        if now != s.input {
                            return Err("the input was at fault and named as output too, but it was modified".into());
                        }
                    }
                },
                _ => {}
            }
        }
        Ok(())
    }
}

impl Property for C12 {
    fn id(&self) -> &'static str {
        "C12"
    }
    fn tape_sizes(&self) -> (usize, usize, usize) {
        (250, 150, 60)
    }
    fn cases(&self, tier: Tier) -> u64 {
        match tier {
            Tier::Quick => 4_000,
            Tier::Thorough => 80_000,
        }
    }
    fn check(&self, tapes: &Tapes, st: &mut Stats) -> Result<(), Failure> {
        let s = decode(tapes);
        let n = COUNTER.fetch_add(1, Ordering::Relaxed);
        let dir = verif_root().join("work").join(format!("c12-{}", std::process::id())).join(format!("{}", n));
        let res = run(&s, &dir);
        let _ = std::fs::remove_dir_all(&dir);
        let fault = !matches!(s.input_kind, InputKind::Valid | InputKind::Pipe) || !matches!(s.output, OutputKind::Stdout | OutputKind::NewFile | OutputKind::ExistingFile);
        if fault || s.parser.is_some() || s.derive.is_some() || s.sort.is_some() || s.output != OutputKind::Stdout {
            st.nontrivial(hash_of(&(&s.input, s.parser, &s.derive, s.sort, format!("{:?}", s.output))));
        }
        st.count(&format!("input.{:?}", s.input_kind));
        st.count(&format!("output.{:?}", s.output));
        st.count(&format!("parser.{}", s.parser.unwrap_or("default")));
        st.count(&format!("sort.{}", s.sort.unwrap_or("default")));
        st.count(if s.derive.is_some() { "derive.given" } else { "derive.default" });
        if s.output == OutputKind::ExistingFile && s.empty_existing {
            st.count("output.ExistingFile.empty");
            if !matches!(s.input_kind, InputKind::Valid) {
                st.count("output.ExistingFile.empty_and_input_at_fault");
            }
        }
        if s.odd_names {
            st.count("file_names_with_blanks_and_non_ascii");
        }
        if s.input_symlink && s.output != OutputKind::SameAsInput && !matches!(s.input_kind, InputKind::Missing | InputKind::Pipe | InputKind::Directory) {
            st.count("input_path_is_a_symbolic_link");
        }
        st.count(&format!("arg_style.{}", ["--opt=value", "--opt value", "-o value"][s.arg_style]));
        if s.output == OutputKind::ExistingFile && s.same_length_existing && matches!(s.input_kind, InputKind::Valid) {
            st.count("output.ExistingFile.same_length_other_content");
        }
        if s.rerun && matches!(s.output, OutputKind::NewFile | OutputKind::ExistingFile) && matches!(s.input_kind, InputKind::Valid) {
            st.count("second_run_into_same_file");
        }
        if s.output == OutputKind::ExistingFile && s.long_existing {
            st.count("output.ExistingFile.longer_than_new_output");
        }
        if library(&s).is_err() && matches!(s.input_kind, InputKind::Damaged | InputKind::Empty) {
            st.count("input.rejected_by_parser");
        }
        st.sample(|| describe(&s));
        match res {
            Ok(()) => Ok(()),
            Err(e) if e.starts_with("INFRA") => Err(Failure::new(e).with_signature("infrastructure")),
            Err(e) => Err(Failure::new(e).with_detail(describe(&s))),
        }
    }
    fn extra(&self, _tier: Tier, _seed: u64, st: &mut Stats) -> Result<(), (Failure, Value)> {
        // buffer-boundary family (fixed, enumerated)
        for (i, (label, s)) in boundary_scenarios().into_iter().enumerate() {
            let dir = verif_root().join("work").join(format!("c12-{}", std::process::id())).join(format!("boundary-{}", i));
            let res = run(&s, &dir);
            let _ = std::fs::remove_dir_all(&dir);
            st.evaluations += 1;
            st.count("boundary_family.runs");
            match res {
                Ok(()) => {}
                Err(e) if e.starts_with("INFRA") => return Err((Failure::new(e).with_signature("infrastructure"), Value::Null)),
                Err(e) => {
                    let _ = std::fs::remove_dir_all(verif_root().join("work").join(format!("c12-{}", std::process::id())));
                    return Err((Failure::new(format!("boundary family, {}: {}", label, e)).with_detail(json!({"input_bytes": s.input.len()})), json!({"boundary_label": label})));
                }
            }
        }
        // all cases have run: remove this process's scratch directory
        let _ = std::fs::remove_dir_all(verif_root().join("work").join(format!("c12-{}", std::process::id())));
        Ok(())
    }
    fn replay_custom(&self, payload: &Value) -> Result<(), Failure> {
        let label = payload["boundary_label"].as_str().unwrap_or("");
        for (i, (l, s)) in boundary_scenarios().into_iter().enumerate() {
            if l == label {
                let dir = verif_root().join("work").join(format!("c12-replay-{}", std::process::id())).join(format!("boundary-{}", i));
                let res = run(&s, &dir);
                let _ = std::fs::remove_dir_all(verif_root().join("work").join(format!("c12-replay-{}", std::process::id())));
                return res.map_err(|e| Failure::new(format!("boundary family, {}: {}", l, e)));
            }
        }
        Err(Failure::new(format!("no boundary scenario is labelled `{}`", label)))
    }
    fn rule(&self) -> String {
        "output paths also as a symbolic link (dangling, or to an existing file: the path must hold the output afterwards, written through or replaced; link and target untouched when the input is at fault) and as the input file itself (overwritten, or refused cleanly); a fixed buffer-boundary family (inputs with a 2-, 3- or 4-byte character starting 0..len bytes before offsets 4096, 8192, 16384, 24576, 32768, 65536; inputs whose output has exactly 4096/8192/16384 bytes, one or two less, one more; stdout, new file, existing file); sampled: one process run of the freshly built CLI per case: input file in {generated valid document, byte-damaged UTF-8 document, non-UTF-8, missing, a directory, element-less, the path being a symbolic link to the file in about 1 of 9, a valid document read from a pipe (/dev/stdin, reported size 0; also 12 enumerated pipe inputs of 1 byte .. 200 KB)} x --parser/-p in {default, quick-xml-de, serde-xml-rs} x --derive=<string from a list incl. empty, leading dashes, unicode, newline, shell metacharacters> or default x --sort in {default, unsorted, name} x output in {stdout, new file, existing file (empty, short, 15 KB and thus longer than the new output, or garbage of exactly the new output's length), path in a missing directory, path that is a directory, path below a regular file, /dev/null, a named pipe with a reader (the reader must receive exactly the output, or nothing when the input is at fault)}, options before or after the positional arguments, written as `--opt=value`, `--opt value` or `-o value`, file names plain or with blanks and non-ASCII characters. Four in ten successful file outputs are followed by a second run into the same file with the other sort order and a permuted derive list (often the same output length). Oracle: success = exit 0 and stdout (plus newline) or file bytes equal header + in-process library rendering with the mapped options, stdout empty when a file is named; failure = exit 1, empty stdout, non-empty stderr, named output untouched when the input was at fault. Non-trivial = any non-default option, an output file or a fault; distinct by hash of input bytes and arguments.".into()
    }
    fn assumptions(&self) -> Vec<String> {
        vec![
            "the check runs as root, so permission faults are replaced by structural ones (missing directory, directory as file, path below a regular file)".into(),
            "the CLI binary is rebuilt from /repo's working tree by ./check before the run".into(),
        ]
    }
    fn describe(&self, tapes: &Tapes) -> Value {
        describe(&decode(tapes))
    }
    fn health(&self, _tier: Tier) -> Vec<(&'static str, u64)> {
        vec![
            ("nontrivial", 2000),
            ("input.Valid", 1000),
            ("input.Damaged", 300),
            ("input.rejected_by_parser", 100),
            ("input.NotUtf8", 100),
            ("input.Missing", 50),
            ("input.Directory", 50),
            ("output.NewFile", 300),
            ("output.ExistingFile", 300),
            ("output.ExistingFile.longer_than_new_output", 60),
            ("output.ExistingFile.same_length_other_content", 40),
            ("output.ExistingFile.empty_and_input_at_fault", 20),
            ("second_run_into_same_file", 150),
            ("output.MissingDir", 50),
            ("output.IsDirectory", 50),
            ("output.BelowRegularFile", 50),
            ("parser.serde-xml-rs", 300),
            ("sort.name", 300),
        ]
    }
}
