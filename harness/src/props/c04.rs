//! C04 — rendered source is well-formed Rust with unique, legal names.

use super::common::*;
use crate::model::Domain;
use crate::rendered::{read_both, StructDef};
use crate::runner::{hash_of, Failure, Property, Stats, Tapes, Tier};
use crate::tape::Tape;
use crate::xmlser::SurfaceCfg;
use serde_json::{json, Value};
use std::collections::BTreeMap;

pub struct C04;

/// child names of the small-scope search: collisions after PascalCase (a/A), concatenations (a+b = ab), a keyword
pub const SMALL_NAMES: &[&str] = &["a", "b", "ab", "A", "type"];

/// names of the flat-element search: three spellings of one identifier, the numeric suffixes and `_attr` forms the
/// identifier map would hand out, the text field's names, a keyword
pub const FLAT_NAMES: &[&str] = &["foo", "Foo", "FOO", "foo_1", "foo_2", "foo-2", "foo_attr", "foo_attr_1", "text", "text_content", "type", "foo_type"];

pub const KEYWORDS: &[&str] = &[
    "as", "break", "const", "continue", "crate", "else", "enum", "extern", "false", "fn", "for", "if", "impl", "in", "let", "loop", "match", "mod",
    "move", "mut", "pub", "ref", "return", "self", "Self", "static", "struct", "super", "trait", "true", "type", "unsafe", "use", "where", "while",
    "async", "await", "dyn", "abstract", "become", "box", "do", "final", "macro", "override", "priv", "typeof", "unsized", "virtual", "yield", "try",
    "_",
];

fn domain() -> Domain {
    let mut d = Domain::general();
    // the statement has no prefix-clash precondition
    d.no_prefix_clash = false;
    d.elem_classes = vec![("plain", 3), ("prefixed", 3), ("multicolon", 1), ("keyword", 5), ("case", 4), ("separator", 4), ("concat", 4), ("std", 4), ("trap", 4), ("nonascii", 2), ("digit", 2)];
    d.attr_classes = vec![("plain", 3), ("prefixed", 3), ("multicolon", 1), ("xmlns", 1), ("keyword", 5), ("case", 3), ("separator", 4), ("concat", 2), ("std", 2), ("trap", 5), ("nonascii", 2), ("digit", 1)];
    d.chain_chance = 10;
    d.chain_max = 60;
    d
}

pub fn legal_ident(s: &str) -> bool {
    // Rust's rule is XID_Start XID_Continue* (combining marks and modifier letters included: `J̌a`, `i̇stanbul`, `ʼNa` are
    // identifiers), which `char::is_alphanumeric` does not capture; syn's own lexer decides, plus the keyword list
    // (syn refuses keywords as well; the list also holds the reserved and the weak ones that cannot name a struct)
    if s.is_empty() || s == "_" || KEYWORDS.contains(&s) || s.chars().any(|c| c.is_whitespace()) {
        return false;
    }
    syn::parse_str::<syn::Ident>(s).is_ok()
}

/// may this character stand inside an identifier? (letters, digits, `_`, and the marks XID_Continue admits)
pub fn ident_continue(c: char) -> bool {
    c == '_' || c.is_alphanumeric() || syn::parse_str::<syn::Ident>(&format!("a{}", c)).is_ok()
}

/// the C04 oracle on the parsed output (also used by C16)
pub fn well_formed(defs: &[StructDef]) -> Result<(), String> {
    let mut seen: BTreeMap<&str, usize> = BTreeMap::new();
    for d in defs {
        if !legal_ident(&d.name) {
            return Err(format!("struct name `{}` is not a legal non-keyword identifier", d.name));
        }
        if ["String", "Option", "Vec"].contains(&d.name.as_str()) {
            return Err(format!("struct name `{}` shadows a type the fields rely on", d.name));
        }
        *seen.entry(d.name.as_str()).or_insert(0) += 1;
    }
    if let Some((n, c)) = seen.iter().find(|(_, c)| **c > 1) {
        return Err(format!("struct `{}` is defined {} times", n, c));
    }
    let mut used: BTreeMap<&str, usize> = BTreeMap::new();
    for d in defs {
        let mut idents: Vec<&str> = Vec::new();
        for f in &d.fields {
            if !legal_ident(&f.ident) {
                return Err(format!("field `{}` of struct `{}` is not a legal non-keyword identifier", f.ident, d.name));
            }
            if idents.contains(&f.ident.as_str()) {
                return Err(format!("field `{}` occurs twice in struct `{}`", f.ident, d.name));
            }
            idents.push(&f.ident);
            if f.base != "String" {
                if !seen.contains_key(f.base.as_str()) {
                    return Err(format!("field `{}` of struct `{}` has type `{}` which is not defined in the output", f.ident, d.name, f.base));
                }
                *used.entry(f.base.as_str()).or_insert(0) += 1;
            }
        }
    }
    for (i, d) in defs.iter().enumerate() {
        let u = used.get(d.name.as_str()).copied().unwrap_or(0);
        if i == 0 && u != 0 {
            return Err(format!("the first struct `{}` is used as a field type {} time(s)", d.name, u));
        }
        if i > 0 && u != 1 {
            return Err(format!("struct `{}` is used by {} fields (expected exactly one)", d.name, u));
        }
    }
    Ok(())
}

fn pool_adversarial(pool: &[String]) -> bool {
    let folds: Vec<String> = pool.iter().map(|n| fold(n)).collect();
    let mut s = folds.clone();
    s.sort();
    s.dedup();
    let collide = s.len() != folds.len();
    // concatenation clash: fold(x)+fold(y) == fold(z)
    let concat = folds.iter().any(|z| folds.iter().any(|x| folds.iter().any(|y| !x.is_empty() && !y.is_empty() && format!("{}{}", x, y) == *z)));
    let special = pool.iter().any(|n| {
        let l = crate::model::local_of(n).to_lowercase();
        KEYWORDS.contains(&l.as_str()) || ["string", "option", "vec", "serialize", "deserialize", "text", "box", "result"].contains(&l.as_str())
    });
    collide || concat || special
}

fn big_oracle(_docs: &[&crate::model::Node], bytes: &[Vec<u8>]) -> Result<bool, String> {
    let root = crate::sut::parse_seq(bytes).map_err(|(i, e)| format!("document #{} rejected: {}", i + 1, e))?;
    for opts in [crate::sut::Options::quick_xml_de(), crate::sut::Options::serde_xml_rs(), crate::sut::opts_quick(true, "")] {
        let src = root.to_serde_struct(&opts);
        let defs = read_both(&src).map_err(|e| format!("output is not a sequence of well-formed struct items: {}", e))?;
        well_formed(&defs)?;
    }
    Ok(true)
}

/// half of the cases are written with the full surface variation (comments, processing instructions, prolog, DOCTYPE,
/// CDATA, entity references): none of it may reach the rendered source
fn surface(tapes: &Tapes) -> SurfaceCfg {
    if tapes.b.first().map(|b| b & 2 == 2).unwrap_or(false) {
        SurfaceCfg::full()
    } else {
        SurfaceCfg::plain()
    }
}

impl Property for C04 {
    fn id(&self) -> &'static str {
        "C04"
    }
    fn tape_sizes(&self) -> (usize, usize, usize) {
        (900, 300, 4)
    }
    fn cases(&self, tier: Tier) -> u64 {
        match tier {
            Tier::Quick => 40_000,
            Tier::Thorough => 2_000_000,
        }
    }
    fn stack_mib(&self) -> usize {
        64
    }
    fn check(&self, tapes: &Tapes, st: &mut Stats) -> Result<(), Failure> {
        let p = prepare(tapes, &domain(), &surface(tapes));
        let mut tc = Tape::new(&tapes.c);
        let by_name = tc.chance(128);
        let serde_xml_rs = tc.chance(80);
        if p.ser.comments > 0 {
            st.count("surface.documents_with_comments");
        }
        if p.ser.cdata > 0 {
            st.count("surface.documents_with_cdata");
        }
        // half of the multi-document cases render the tree after every document (a preview per file): the last rendering
        // must be as well-formed as a single one
        let observed = tapes.a.first().map(|b| b & 1 == 1).unwrap_or(false);
        if observed && p.bytes.len() > 1 {
            st.count("histories_with_a_rendering_after_every_document");
        }
        let root = if observed { parse_docs_observed(&p.bytes)? } else { parse_docs(&p.bytes)? };
        let mut opts = if serde_xml_rs { crate::sut::Options::serde_xml_rs() } else { crate::sut::Options::quick_xml_de() };
        if by_name {
            opts.sort = crate::sut::SortBy::XmlName;
        }
        let src = root.to_serde_struct(&opts);
        let detail = || json!({"case": describe_case(&p), "preset": if serde_xml_rs {"serde_xml_rs"} else {"quick_xml_de"}, "sort_by_name": by_name, "rendered": src});
        let defs = read_both(&src).map_err(|e| Failure::new(format!("output is not a sequence of well-formed struct items: {}", e)).with_detail(detail()))?;
        let adv = pool_adversarial(&p.case.elem_pool) || pool_adversarial(&p.case.attr_pool);
        if adv {
            st.count("adversarial_pool");
        }
        if adv && defs.len() >= 3 {
            st.nontrivial(hash_of(&(&p.case.docs, by_name, serde_xml_rs)));
        }
        if serde_xml_rs {
            st.count("preset.serde_xml_rs");
        }
        if defs.iter().any(|d| d.name.chars().last().map(|c| c.is_ascii_digit()).unwrap_or(false)) {
            st.count("struct_name_with_numeric_suffix");
        }
        if defs.iter().any(|d| d.fields.iter().any(|f| f.ident.ends_with("_attr") || f.ident.ends_with("_1") || f.ident == "text_content")) {
            st.count("field_collision_resolved");
        }
        st.add("structs", defs.len() as u64);
        st.sample(|| describe_case(&p));
        well_formed(&defs).map_err(|e| Failure::new(e).with_detail(detail()))
    }
    fn extra(&self, tier: Tier, _seed: u64, st: &mut Stats) -> Result<(), (Failure, Value)> {
        // small-scope exhaustive part: every document with up to 4 (thorough: 5) elements over colliding and
        // concatenating child names, both presets
        let max_nodes = match tier {
            Tier::Quick => 4,
            Tier::Thorough => 5,
        };
        let docs = super::smallscope::documents_over(max_nodes, SMALL_NAMES);
        let (evals, nts, fail) = super::smallscope::run_tuples_over(docs, 1, |_docs, bytes| {
            let root = crate::sut::parse_seq(bytes).map_err(|(i, e)| format!("document #{} rejected: {}", i + 1, e))?;
            for opts in [crate::sut::Options::quick_xml_de(), crate::sut::Options::serde_xml_rs()] {
                let src = root.to_serde_struct(&opts);
                let defs = read_both(&src).map_err(|e| format!("output is not a sequence of well-formed struct items: {}\n{}", e, src))?;
                well_formed(&defs).map_err(|e| format!("{}\n{}", e, src))?;
            }
            Ok(true)
        });
        st.evaluations += evals;
        st.nontrivial_enumerated += nts;
        st.add("exhaustive.documents_over_colliding_names", evals);
        if let Some((e, docs)) = fail {
            return Err((Failure::new(format!("small-scope exhaustive search: {}", e)).with_detail(json!({"documents": docs})), json!({"small_scope_documents": docs})));
        }
        // families beyond the small scope (sizes around plausible limits: windows, inline capacities, two-digit suffixes)
        {
            let (n, fail) = super::smallscope::run_big_families(big_oracle);
            st.evaluations += n;
            st.nontrivial_enumerated += n;
            st.add("big_families", n);
            if let Some((label, e, docs)) = fail {
                let first = e.lines().next().unwrap_or("").to_string();
                return Err((Failure::new(format!("family `{}`: {}", label, first)).with_detail(json!({"documents": docs, "message": e})), json!({"big_family": label})));
            }
        }
        // flat elements: every ordered sequence of up to 4 distinct children and up to 2 attributes over names whose
        // identifiers collide with each other and with the suffixes the identifier map hands out
        let max_children = match tier {
            Tier::Quick => 4,
            Tier::Thorough => 5,
        };
        let mut flat: Vec<crate::model::Node> = Vec::new();
        fn seqs(names: &[&str], max: usize, cur: &mut Vec<usize>, out: &mut Vec<Vec<usize>>) {
            out.push(cur.clone());
            if cur.len() == max {
                return;
            }
            for i in 0..names.len() {
                if cur.contains(&i) {
                    continue;
                }
                cur.push(i);
                seqs(names, max, cur, out);
                cur.pop();
            }
        }
        let mut child_seqs = Vec::new();
        seqs(FLAT_NAMES, max_children, &mut Vec::new(), &mut child_seqs);
        let mut attr_seqs = Vec::new();
        seqs(FLAT_NAMES, 2, &mut Vec::new(), &mut attr_seqs);
        for cs in &child_seqs {
            for (ai, asq) in attr_seqs.iter().enumerate() {
                // thin out the attribute dimension for long child sequences
                if cs.len() >= 4 && ai % 5 != 0 {
                    continue;
                }
                for text in [false, true] {
                    let mut items: Vec<crate::model::Item> = Vec::new();
                    if text {
                        items.push(crate::model::Item::Chars { blank: false });
                    }
                    for c in cs {
                        items.push(crate::model::Item::Child(crate::model::Node { name: FLAT_NAMES[*c].to_string(), attrs: vec![], items: vec![] }));
                    }
                    flat.push(crate::model::Node { name: "foo".to_string(), attrs: asq.iter().map(|a| FLAT_NAMES[*a].to_string()).collect(), items });
                }
            }
        }
        let (evals, nts, fail) = super::smallscope::run_tuples_over(flat, 1, |_docs, bytes| {
            let root = crate::sut::parse_seq(bytes).map_err(|(i, e)| format!("document #{} rejected: {}", i + 1, e))?;
            for by_name in [false, true] {
                let src = root.to_serde_struct(&crate::sut::opts_quick(by_name, ""));
                let defs = crate::rendered::read_lines(&src).map_err(|e| format!("output unreadable: {}\n{}", e, src))?;
                well_formed(&defs).map_err(|e| format!("{}\n{}", e, src))?;
            }
            Ok(true)
        });
        st.evaluations += evals;
        st.nontrivial_enumerated += nts;
        st.add("exhaustive.flat_elements_over_suffix_trap_names", evals);
        if let Some((e, docs)) = fail {
            return Err((Failure::new(format!("small-scope exhaustive search (flat element): {}", e)).with_detail(json!({"documents": docs})), json!({"small_scope_documents": docs})));
        }
        // literal names that equal a synthesised struct name: `c` under `p` and under `q` is qualified (PC, QC), a reserved
        // name gets a suffix (String2) - and an element that is literally called like that stands before, between or behind
        {
            use crate::model::{Item, Node};
            let el = |name: &str, kids: Vec<Node>| Node { name: name.to_string(), attrs: vec!["k".to_string()], items: kids.into_iter().map(Item::Child).collect() };
            let mut synth: Vec<Node> = Vec::new();
            for (p_, q_, c_) in [("a", "z", "b"), ("total", "tax", "price"), ("foo", "r", "bar"), ("a", "a2", "a")] {
                let pascal = |s: &str| -> String { s.split(['_', '-']).map(|w| w.chars().take(1).flat_map(|c| c.to_uppercase()).chain(w.chars().skip(1)).collect::<String>()).collect() };
                let literals = [
                    format!("{}{}", p_, c_),
                    format!("{}{}", pascal(p_), pascal(c_)),
                    format!("{}_{}", p_, c_),
                    format!("{}-{}", p_, c_),
                    format!("{}{}", pascal(q_), pascal(c_)),
                    format!("{}{}2", pascal(p_), pascal(c_)),
                    format!("r{}{}", pascal(p_), pascal(c_)),
                ];
                for lit in &literals {
                    for pos in 0..3 {
                        for nested in [false, true] {
                            let leaf = el(c_, vec![]);
                            let inner = if nested { el(c_, vec![el("x", vec![])]) } else { leaf.clone() };
                            let mut kids = vec![el(p_, vec![inner.clone()]), el(q_, vec![leaf.clone()])];
                            kids.insert(pos, el(lit, vec![]));
                            synth.push(el("r", kids));
                        }
                    }
                }
            }
            for (res, lit) in [("string", "string2"), ("vec", "Vec2"), ("option", "option2"), ("self", "Self2"), ("serialize", "Serialize2")] {
                for order in [[0usize, 1], [1, 0]] {
                    let both = [el(res, vec![]), el(lit, vec![])];
                    synth.push(el("r", order.iter().map(|i| both[*i].clone()).collect()));
                    // two elements of the reserved name at different positions, and the literal
                    synth.push(el("r", vec![both[order[0]].clone(), both[order[1]].clone(), el("m", vec![el(res, vec![])])]));
                }
            }
            let (evals, nts, fail) = super::smallscope::run_tuples_over(synth, 1, |_docs, bytes| {
                let root = crate::sut::parse_seq(bytes).map_err(|(i, e)| format!("document #{} rejected: {}", i + 1, e))?;
                for by_name in [false, true] {
                    let src = root.to_serde_struct(&crate::sut::opts_quick(by_name, ""));
                    let defs = read_both(&src).map_err(|e| format!("output is not a sequence of well-formed struct items: {}\n{}", e, src))?;
                    well_formed(&defs).map_err(|e| format!("{}\n{}", e, src))?;
                }
                Ok(true)
            });
            st.evaluations += evals;
            st.nontrivial_enumerated += nts;
            st.add("literal_names_equal_to_synthesised_struct_names", evals);
            if let Some((e, docs)) = fail {
                return Err((Failure::new(format!("literal name equal to a synthesised struct name: {}", e)).with_detail(json!({"documents": docs})), json!({"small_scope_documents": docs})));
            }
        }
        Ok(())
    }
    fn replay_custom(&self, payload: &Value) -> Result<(), Failure> {
        if let Some(l) = payload["big_family"].as_str() {
            return super::smallscope::replay_big_family(l, big_oracle).map_err(Failure::new);
        }
        let docs: Vec<Vec<u8>> = payload["small_scope_documents"].as_array().map(|a| a.iter().map(|d| d.as_str().unwrap_or("").as_bytes().to_vec()).collect()).unwrap_or_default();
        let root = crate::sut::parse_seq(&docs).map_err(|(i, e)| Failure::new(format!("document #{} rejected: {}", i + 1, e)))?;
        for opts in [crate::sut::Options::quick_xml_de(), crate::sut::Options::serde_xml_rs()] {
            let src = root.to_serde_struct(&opts);
            let defs = read_both(&src).map_err(|e| Failure::new(format!("output is not a sequence of well-formed struct items: {}\n{}", e, src)))?;
            well_formed(&defs).map_err(|e| Failure::new(format!("{}\n{}", e, src)))?;
        }
        Ok(())
    }
    fn exhaustive(&self) -> bool {
        true
    }
    fn rule(&self) -> String {
        "small-scope exhaustive: every document with root r and up to 4 (thorough: 5) elements over the child names a, b, ab, A, type (attribute k, optional text), both presets; every flat element `foo` with up to 4 (thorough: 5) distinct children, up to 2 attributes and optional text over 12 names whose identifiers collide with each other and with the suffixes the identifier map hands out (foo, Foo, FOO, foo_1, foo_2, foo-2, foo_attr, foo_attr_1, text, text_content, type, foo_type), both sort orders; a fixed family of documents in which an element is literally called like a synthesised struct name (`ab`/`AB`/`a_b` beside a/b and z/b, `string2` beside `string`), before, between and behind; sampled: tape-decoded document sequences over adversarial name pools (keywords in any case, case and separator variants, prefixed and multi-colon names, concatenation sets, String/Option/Vec/Serialize..., identifier-map traps such as text/text_content/foo_1/type_attr, non-ASCII, digits; names may clash after prefix removal; one document in 25 a chain up to depth 60; half of the cases written with the full surface variation: comments whose text contains `/*`, `*/`, `//`, quotes, braces and line breaks, PIs, prolog, DOCTYPE, CDATA with bare ampersands, entity references), in half of the cases the tree is rendered after every document and only the last rendering is judged; both presets and both sort orders. The output is parsed with syn (and the strict line reader, cross-checked) and checked for: only pub structs with pub named fields, unique legal non-keyword struct names not shadowing String/Option/Vec, unique legal non-keyword field names per struct, field types String or a struct of the same output, every non-first struct used by exactly one field and the first by none. Non-trivial = the pool holds names that collide after normalisation, a concatenation clash, or a keyword/std/trap name, and the output has three or more structs; distinct by hash of documents and options.".into()
    }
    fn assumptions(&self) -> Vec<String> {
        vec![
            "names contain a letter and their first alphanumeric character is a letter (reading of 'a letter before any digit'); `_`, `__`, `_1` are outside the domain".into(),
            "syn 2 decides syntactic validity (edition-2021 keyword set)".into(),
        ]
    }
    fn describe(&self, tapes: &Tapes) -> Value {
        describe_case(&prepare(tapes, &domain(), &surface(tapes)))
    }
    fn health(&self, _tier: Tier) -> Vec<(&'static str, u64)> {
        vec![("nontrivial", 5000), ("struct_name_with_numeric_suffix", 500), ("field_collision_resolved", 3000), ("preset.serde_xml_rs", 3000)]
    }
}
