use crate::runner::Property;

pub mod c01;
pub mod c03;
pub mod c04;
pub mod c05;
pub mod c06;
pub mod c07;
pub mod c08;
pub mod c09;
pub mod c10;
pub mod c11;
pub mod c12;
pub mod c14;
pub mod c15;
pub mod c16;
pub mod common;
pub mod prog;
pub mod smallscope;

pub fn by_id(id: &str) -> Option<Box<dyn Property>> {
    match id {
        "C01" => Some(Box::new(c01::C01)),
        "C02" => Some(Box::new(prog::ProgProp { id: "C02", deser: crate::progrun::Deser::QuickXml })),
        "C03" => Some(Box::new(c03::C03)),
        "C04" => Some(Box::new(c04::C04)),
        "C05" => Some(Box::new(c05::C05)),
        "C06" => Some(Box::new(c06::C06)),
        "C07" => Some(Box::new(c07::C07)),
        "C08" => Some(Box::new(c08::C08)),
        "C09" => Some(Box::new(c09::C09)),
        "C10" => Some(Box::new(c10::C10)),
        "C11" => Some(Box::new(c11::C11)),
        "C12" => Some(Box::new(c12::C12)),
        "C13" => Some(Box::new(prog::ProgProp { id: "C13", deser: crate::progrun::Deser::SerdeXmlRs })),
        "C14" => Some(Box::new(c14::C14)),
        "C15" => Some(Box::new(c15::C15)),
        "C16" => Some(Box::new(c16::C16)),
        _ => None,
    }
}
