//! C02 / C13 — generated code compiles and the target deserializer reads the source documents back
//! without dropping anything. Shared driver; the two properties differ in domain, preset, deserializer.

use super::common::*;
use crate::model::Domain;
use crate::progrun::*;
use crate::runner::{gen_tapes, hash_of, hex, load_known, unhex, verif_root, Failure, Property, Stats, Tapes, Tier};
use crate::sut::Options;
use crate::xmlser::SurfaceCfg;
use serde_json::{json, Value};
use std::sync::atomic::{AtomicU64, Ordering};
use std::sync::Mutex;

pub struct ProgProp {
    pub id: &'static str,
    pub deser: Deser,
}

pub const FE_SIGNATURE: &str = "serde_xml_rs.struct_text_dropped";
static DIRCTR: AtomicU64 = AtomicU64::new(0);

fn c02_domain() -> Domain {
    let mut d = Domain::general();
    d.data_oriented = true;
    d.no_prefix_clash = true;
    // programs are expensive: weight the classes whose names collide or are illegal somewhere
    d.elem_classes = vec![("plain", 3), ("prefixed", 3), ("multicolon", 1), ("keyword", 4), ("case", 4), ("separator", 3), ("concat", 6), ("std", 4), ("trap", 3), ("nonascii", 2), ("digit", 1), ("long", 1)];
    d.max_nodes = 22;
    d.max_docs = 4;
    d
}

fn c13_domain(known_slice: bool) -> Domain {
    let mut d = Domain::general().without_classes(&["prefixed", "multicolon", "xmlns"]);
    d.data_oriented = true;
    d.no_mixed_at_all = true;
    d.adjacent_repeats = true;
    d.attr_child_disjoint = true;
    d.split_leaf_struct = !known_slice;
    d.ns_free = true;
    d.elem_classes = vec![("plain", 3), ("keyword", 4), ("case", 4), ("separator", 3), ("concat", 6), ("std", 4), ("trap", 3), ("nonascii", 2), ("digit", 1), ("long", 1)];
    d.max_nodes = 22;
    d.max_docs = 4;
    d
}

fn surface(deser: Deser) -> SurfaceCfg {
    let mut s = SurfaceCfg::full();
    s.bom = false;
    s.allow_cr = false;
    s.blank_cdata = false;
    // quick-xml's and xml-rs' deserializers reject references to entities declared in a DTD
    s.general_entities = false;
    // the deserialised values are compared: how each deserializer trims Unicode white space is not this crate's business
    s.unicode_ws = false;
    if deser == Deser::SerdeXmlRs {
        // xml-rs is a validating-ish parser: keep to what it accepts for certain
        s.doctype_subset = false;
        // xml-rs reports a processing instruction inside character data as a separate event and
        // serde-xml-rs then sees two text nodes in one element (a deserializer limitation that a
        // hand-written `field: String` shares); comments are coalesced
        s.pis = false;
    }
    s
}

/// `admits` of C01 for a preset without attribute prefix: attributes and child elements of an occurrence are looked up in
/// one field namespace (sound because the C13 domain keeps them disjoint and free of namespace prefixes)
fn admits_flat(n: &crate::model::Node, r: &crate::rendered::RNode, path: &str) -> Result<(), String> {
    let here = format!("{}/{}", path, n.name);
    for a in &n.attrs {
        match r.child(a) {
            None => return Err(format!("{}: attribute `{}` has no field bound to it in struct {}", here, a, r.struct_name)),
            Some(f) if f.node.is_some() || f.vec => return Err(format!("{}: attribute `{}` is bound to field {} of type {}", here, a, f.ident, f.base)),
            Some(_) => {}
        }
    }
    for c in n.children() {
        let f = r.child(&c.name).ok_or_else(|| format!("{}: child `{}` has no field bound to it in struct {}", here, c.name, r.struct_name))?;
        match &f.node {
            None => {
                if !c.attrs.is_empty() || c.children().next().is_some() {
                    return Err(format!("{}: child `{}` is typed String but this occurrence has attributes or child elements", here, c.name));
                }
            }
            Some(sub) => admits_flat(c, sub, &here)?,
        }
    }
    for f in &r.children {
        let cnt = n.children().filter(|c| c.name == f.bound).count() + n.attrs.iter().filter(|a| **a == f.bound).count();
        if !f.optional && cnt == 0 {
            return Err(format!("{}: struct {} requires `{}` (field {}: {} is not Option) but this occurrence has neither an attribute nor a child of that name", here, r.struct_name, f.bound, f.ident, f.base));
        }
        if !f.vec && cnt > 1 {
            return Err(format!("{}: `{}` occurs {} times but field {} of struct {} is not a Vec", here, f.bound, cnt, f.ident, r.struct_name));
        }
    }
    if n.has_nonblank() && r.text.is_none() {
        return Err(format!("{}: occurrence has character data but struct {} has no text field", here, r.struct_name));
    }
    Ok(())
}

impl ProgProp {
    fn known_slice(&self, tapes: &Tapes) -> bool {
        // one case in twenty keeps probing the region of the open finding F-E (C13 only)
        self.deser == Deser::SerdeXmlRs && tapes.c.first().map(|b| *b < 13).unwrap_or(false)
    }
    fn domain(&self, tapes: &Tapes) -> Domain {
        match self.deser {
            Deser::QuickXml => c02_domain(),
            Deser::SerdeXmlRs => c13_domain(self.known_slice(tapes)),
        }
    }
    fn options(&self) -> Options {
        match self.deser {
            Deser::QuickXml => Options::quick_xml_de(),
            Deser::SerdeXmlRs => Options::serde_xml_rs(),
        }
    }
    /// one case in four is rendered with sort-by-name on top of the preset (the CLI offers --sort next to --parser)
    fn options_for(&self, tapes: &Tapes) -> Options {
        let mut o = self.options();
        if tapes.c.get(1).map(|b| b & 3 == 0).unwrap_or(false) {
            o.sort = crate::sut::SortBy::XmlName;
        }
        o
    }
    fn build(&self, tapes: &Tapes) -> Result<(Prepared, ProgCase), Failure> {
        let p = prepare(tapes, &self.domain(tapes), &surface(self.deser));
        let root = parse_docs(&p.bytes)?;
        let rendering = root.to_serde_struct(&self.options_for(tapes));
        let first = rendering.lines().find_map(|l| l.strip_prefix("pub struct ").and_then(|r| r.strip_suffix(" {"))).unwrap_or("Missing").to_string();
        let docs = p.bytes.iter().map(|b| String::from_utf8_lossy(b).to_string()).collect();
        let case = ProgCase { source: format!("{}{}", HEADER, rendering), root: first, docs, with_strict: self.deser == Deser::QuickXml };
        Ok((p, case))
    }
    /// judge one executed case
    fn judge(&self, p: &Prepared, pc: &ProgCase, res: &CaseResult, st: &mut Stats) -> Result<(), Failure> {
        let detail = |extra: Value| json!({"case": describe_case(p), "generated_source": pc.source, "root": pc.root, "result": extra});
        let (prefix, text_key) = match self.deser {
            Deser::QuickXml => ("@", "$text"),
            Deser::SerdeXmlRs => ("", "$text"),
        };
        match res {
            CaseResult::CompileError(msg) => Err(Failure::new(format!("the generated source does not compile:\n{}", msg)).with_signature("compile_error").with_detail(detail(Value::Null))),
            CaseResult::Ran(rows) => {
                for (i, (plain, strict)) in rows.iter().enumerate() {
                    let mut variants: Vec<(&str, &DocResult)> = vec![("as generated", plain)];
                    if let Some(s) = strict {
                        variants.push(("with deny_unknown_fields", s));
                    }
                    for (what, r) in variants {
                        match r {
                            DocResult::Missing => {
                                return Err(Failure::new(format!("the test program produced no result for document #{} ({}): it died before", i + 1, what)).with_detail(detail(Value::Null)))
                            }
                            DocResult::Err(e) => {
                                return Err(Failure::new(format!("from_str into `{}` ({}) fails for source document #{}: {}", pc.root, what, i + 1, e))
                                    .with_signature("deserialize_error")
                                    .with_detail(detail(json!({"document": pc.docs[i]}))))
                            }
                            DocResult::Ok(v) => {
                                let mut discs = Vec::new();
                                let mut cs = CmpStats { attr_values: 0, text_values: 0, whitespace_only_differences: 0 };
                                compare(&p.values[i], v, prefix, text_key, "", &mut discs, &mut cs);
                                st.add("attribute_values_compared", cs.attr_values);
                                st.add("text_values_compared", cs.text_values);
                                st.add("whitespace_only_differences", cs.whitespace_only_differences);
                                if !discs.is_empty() {
                                    let only_fe = self.deser == Deser::SerdeXmlRs && discs.iter().all(|d| d.kind == DiscKind::StructTextMissing);
                                    let mut f = Failure::new(format!(
                                        "document #{} deserializes ({}) but the value does not hold the document's content: {}",
                                        i + 1,
                                        what,
                                        discs.iter().map(|d| d.msg.clone()).collect::<Vec<_>>().join("; ")
                                    ))
                                    .with_detail(detail(json!({"document": pc.docs[i], "value": v})));
                                    if only_fe {
                                        f = f.with_signature(FE_SIGNATURE);
                                    }
                                    return Err(f);
                                }
                            }
                        }
                    }
                }
                Ok(())
            }
        }
    }
    fn classify(&self, p: &Prepared, pc: &ProgCase, tapes: &Tapes, st: &mut Stats) {
        let n_structs = pc.source.matches("pub struct ").count();
        let opt = pc.source.matches(": Option<").count();
        let vecs = pc.source.matches("Vec<").count();
        let has_vals = p.values.iter().any(|v| !v.attrs.is_empty() || !v.chunks.is_empty() || !v.children.is_empty());
        if (n_structs >= 2 || opt + vecs >= 1) && has_vals {
            st.nontrivial(hash_of(&(&p.case.docs, &tapes.b)));
        }
        st.add("structs", n_structs as u64);
        st.add("modules_compiled", if pc.with_strict { 2 } else { 1 });
        st.add("documents_deserialized", (pc.docs.len() * if pc.with_strict { 2 } else { 1 }) as u64);
        let mut flag = |n: &str, b: bool| {
            if b {
                st.count(n)
            }
        };
        flag("has_option_field", opt > 0);
        flag("has_vec_field", vecs > 0);
        flag("has_option_vec_field", pc.source.contains("Option<Vec<"));
        flag("has_renamed_field", pc.source.contains("#[serde(rename"));
        flag("has_xmlns_attribute", pc.source.contains("\"@xmlns"));
        flag("has_text_field", pc.source.contains("$text"));
        flag("has_vec_string", pc.source.contains("Vec<String>"));
        flag("k>=2", pc.docs.len() >= 2);
        flag("known_finding_slice", self.known_slice(tapes));
        flag("surface.cdata", p.ser.cdata > 0);
        flag("surface.comments", p.ser.comments > 0);
    }
    fn run_single(&self, tapes: &Tapes, st: &mut Stats) -> Result<(), Failure> {
        let (p, pc) = self.build(tapes)?;
        let dir = verif_root().join("work").join(format!("{}-{}-s{}", self.id, std::process::id(), DIRCTR.fetch_add(1, Ordering::Relaxed)));
        let res = run_batch(&dir, std::slice::from_ref(&pc), self.deser).map_err(|e| Failure::new(e).with_signature("infrastructure"))?;
        self.judge(&p, &pc, &res[0], st)
    }
    /// greedy tape shrinking with single-case compiles, candidates evaluated 16 at a time
    fn shrink(&self, tapes: &Tapes, sig: &Option<String>, budget: usize) -> Tapes {
        let fails = |t: &Tapes| -> bool {
            let mut st = Stats::default();
            st.frozen = true;
            match self.run_single(t, &mut st) {
                Err(f) => f.signature.as_deref() != Some("infrastructure") && &f.signature == sig,
                Ok(()) => false,
            }
        };
        let mut cur = tapes.clone();
        let mut spent = 0usize;
        let mut progress = true;
        while progress && spent < budget {
            progress = false;
            let mut cands: Vec<Tapes> = Vec::new();
            for which in 0..2 {
                let len = if which == 0 { cur.a.len() } else { cur.b.len() };
                let mut chunk = len / 2;
                while chunk >= 1 && cands.len() < 64 {
                    let mut start = 0;
                    while start < len && cands.len() < 64 {
                        let mut t = cur.clone();
                        let v = if which == 0 { &mut t.a } else { &mut t.b };
                        let end = (start + chunk).min(v.len());
                        v.drain(start..end);
                        cands.push(t);
                        start += chunk;
                    }
                    chunk /= 2;
                }
            }
            // also: zero the surface tape completely
            let mut t0 = cur.clone();
            t0.b.clear();
            cands.insert(0, t0);
            for group in cands.chunks(16) {
                if spent >= budget {
                    break;
                }
                spent += group.len();
                let verdicts: Vec<bool> = std::thread::scope(|s| {
                    let hs: Vec<_> = group.iter().map(|c| s.spawn(|| fails(c))).collect();
                    hs.into_iter().map(|h| h.join().unwrap_or(false)).collect()
                });
                if let Some(i) = verdicts.iter().position(|v| *v) {
                    if group[i].a.len() + group[i].b.len() < cur.a.len() + cur.b.len() {
                        cur = group[i].clone();
                        progress = true;
                        break;
                    }
                }
            }
        }
        cur
    }
}

impl ProgProp {
    /// the necessary conditions of the static stage on one enumerated document sequence
    fn static_oracle(&self, docs: &[&crate::model::Node], bytes: &[Vec<u8>]) -> Result<bool, String> {
        let root = crate::sut::parse_seq(bytes).map_err(|(i, e)| format!("document #{} rejected: {}", i + 1, e))?;
        for by_name in [false, true] {
            let mut o = self.options();
            if by_name {
                o.sort = crate::sut::SortBy::XmlName;
            }
            let tag = if by_name { " (sorted by name)" } else { "" };
            let src = root.to_serde_struct(&o);
            let defs = crate::rendered::read_syn(&src).map_err(|e| format!("the generated source{} cannot compile: {}", tag, e))?;
            super::c04::well_formed(&defs).map_err(|e| format!("the generated source{} cannot compile: {}", tag, e))?;
            if let Some(d) = defs.iter().find(|d| d.name == "Serialize" || d.name == "Deserialize") {
                return Err(format!("the generated source{} cannot compile: struct `{}` clashes with the serde import of the header", tag, d.name));
            }
            let tree = crate::rendered::build_tree(&defs, &o.attribute_prefix, &o.text_identifier).map_err(|e| format!("the generated structs{} do not form a tree: {}", tag, e))?;
            for (i, d) in docs.iter().enumerate() {
                let r = if self.deser == Deser::QuickXml { super::c01::admits(d, &tree, "") } else { admits_flat(d, &tree, "") };
                r.map_err(|e| format!("from_str{} cannot succeed for source document #{}: {}", tag, i + 1, e))?;
            }
        }
        Ok(true)
    }
}

impl Property for ProgProp {
    fn id(&self) -> &'static str {
        self.id
    }
    fn tape_sizes(&self) -> (usize, usize, usize) {
        (500, 300, 2)
    }
    fn cases(&self, _tier: Tier) -> u64 {
        0
    }
    fn check(&self, tapes: &Tapes, st: &mut Stats) -> Result<(), Failure> {
        self.run_single(tapes, st)
    }
    fn extra(&self, tier: Tier, seed: u64, st: &mut Stats) -> Result<(), (Failure, Value)> {
        let (batches, size) = match tier {
            Tier::Quick => (16usize, 32usize),
            Tier::Thorough => (16 * 16, 64),
        };
        let (batches, size) = match std::env::var("XSGV_PROGRAMS").ok().and_then(|s| s.parse::<usize>().ok()) {
            Some(n) => ((n + 31) / 32, 32),
            None => (batches, size),
        };
        // stage 1 (cheap, many cases): necessary conditions for compilation, checked without rustc
        let pre_n: usize = std::env::var("XSGV_PRECHECK").ok().and_then(|s| s.parse().ok()).unwrap_or(match tier {
            Tier::Quick => 100_000,
            Tier::Thorough => 1_500_000,
        });
        {
            let pre = gen_tapes(self, seed ^ 0x9e37, pre_n);
            let bad: Mutex<Option<(Failure, Tapes)>> = Mutex::new(None);
            let counted = AtomicU64::new(0);
            let pre_stats: Mutex<Stats> = Mutex::new(Stats::default());
            std::thread::scope(|s| {
                for w in 0..16usize {
                    let pre = &pre;
                    let bad = &bad;
                    let counted = &counted;
                    let pre_stats = &pre_stats;
                    s.spawn(move || {
                        let mut local = Stats::default();
                        for (i, t) in pre.iter().enumerate() {
                            if i % 16 != w {
                                continue;
                            }
                            if i % 512 == w && bad.lock().unwrap().is_some() {
                                break;
                            }
                            let r = match self.build(t) {
                                Err(f) => Err(f),
                                Ok((p, pc)) => {
                                    // the static stage shares the non-trivial rule of the compile stage
                                    let n_structs = pc.source.matches("pub struct ").count();
                                    if n_structs >= 2 || pc.source.contains(": Option<") || pc.source.contains("Vec<") {
                                        local.nontrivial(hash_of(&(&p.case.docs, &t.b)));
                                    }
                                    if local.samples.is_empty() && w == 0 {
                                        local.samples.push(json!({"case": describe_case(&p), "generated_source": pc.source}));
                                    }
                                    match crate::rendered::read_syn(&pc.source[HEADER.len()..]) {
                                    Err(e) => Err(Failure::new(format!("the generated source cannot compile: {}", e)).with_signature("compile_error").with_detail(json!({"case": describe_case(&p), "generated_source": pc.source}))),
                                    Ok(defs) => match super::c04::well_formed(&defs).and_then(|_| match defs.iter().find(|d| d.name == "Serialize" || d.name == "Deserialize") {
                                        Some(d) => Err(format!("struct `{}` clashes with the serde import of the header", d.name)),
                                        None => Ok(()),
                                    }) {
                                        Err(e) => Err(Failure::new(format!("the generated source cannot compile: {}", e)).with_signature("compile_error").with_detail(json!({"case": describe_case(&p), "generated_source": pc.source}))),
                                        Ok(()) => {
                                            // a second necessary condition (quick-xml preset, where `@` separates attributes from children):
                                            // a struct set that does not admit a source document cannot deserialize it
                                            if self.deser == Deser::QuickXml {
                                                match crate::rendered::build_tree(&defs, "@", "$text") {
                                                    Err(e) => Err(Failure::new(format!("the generated structs do not form a tree: {}", e)).with_signature("compile_error").with_detail(json!({"case": describe_case(&p), "generated_source": pc.source}))),
                                                    Ok(tree) => {
                                                        let mut r = Ok(());
                                                        for (di, d) in p.case.docs.iter().enumerate() {
                                                            if let Err(e) = super::c01::admits(d, &tree, "") {
                                                                r = Err(Failure::new(format!("from_str cannot succeed for source document #{}: {}", di + 1, e)).with_signature("deserialize_error").with_detail(json!({"case": describe_case(&p), "generated_source": pc.source})));
                                                                break;
                                                            }
                                                        }
                                                        r
                                                    }
                                                }
                                            } else {
                                                // serde-xml-rs preset: no attribute prefix, so attributes and children share the field
                                                // namespace (the domain keeps an element's attribute names distinct from its child names)
                                                match crate::rendered::build_tree(&defs, "", &self.options().text_identifier) {
                                                    Err(e) => Err(Failure::new(format!("the generated structs do not form a tree: {}", e)).with_signature("compile_error").with_detail(json!({"case": describe_case(&p), "generated_source": pc.source}))),
                                                    Ok(tree) => {
                                                        let mut r = Ok(());
                                                        for (di, d) in p.case.docs.iter().enumerate() {
                                                            if let Err(e) = admits_flat(d, &tree, "") {
                                                                r = Err(Failure::new(format!("from_str cannot succeed for source document #{}: {}", di + 1, e)).with_signature("deserialize_error").with_detail(json!({"case": describe_case(&p), "generated_source": pc.source})));
                                                                break;
                                                            }
                                                        }
                                                        r
                                                    }
                                                }
                                            }
                                        }
                                    },
                                }}
                            };
                            counted.fetch_add(1, Ordering::Relaxed);
                            if let Err(f) = r {
                                let mut g = bad.lock().unwrap();
                                if g.is_none() {
                                    *g = Some((f, t.clone()));
                                }
                                break;
                            }
                        }
                        pre_stats.lock().unwrap().merge(local);
                    });
                }
            });
            let n = counted.load(Ordering::Relaxed);
            st.merge(pre_stats.into_inner().unwrap());
            st.add("static_precheck_cases", n);
            st.evaluations += n;
            if let Some((f, t)) = bad.into_inner().unwrap() {
                return Err((f, json!({"a": hex(&t.a), "b": hex(&t.b), "c": hex(&t.c)})));
            }
        }
        // the same necessary conditions on the enumerated families beyond the small scope that lie inside the domain
        // (many colliding names, many attributes / children, several new ones at once)
        {
            let (n, fail) = super::smallscope::run_big_families_where(|l| l.starts_with("collision swarm") || l.starts_with("n=") || l.starts_with("chain of depth"), |d, b| self.static_oracle(d, b));
            st.evaluations += n;
            st.add("static_precheck_big_families", n);
            if let Some((label, e, docs)) = fail {
                let first = e.lines().next().unwrap_or("").to_string();
                return Err((Failure::new(format!("family `{}`: {}", label, first)).with_signature("compile_error").with_detail(json!({"documents": docs, "message": e})), json!({"big_family": label})));
            }
        }
        let all = gen_tapes(self, seed, batches * size);
        let known: Vec<String> = load_known().into_iter().filter(|k| k.property == self.id).map(|k| k.signature).collect();
        let next = AtomicU64::new(0);
        let merged = Mutex::new(Stats::default());
        let first: Mutex<Option<(Failure, Tapes)>> = Mutex::new(None);
        std::thread::scope(|s| {
            for _w in 0..16 {
                s.spawn(|| {
                    let mut local = Stats::default();
                    loop {
                        let b = next.fetch_add(1, Ordering::Relaxed) as usize;
                        if b >= batches || first.lock().unwrap().is_some() {
                            break;
                        }
                        let slice = &all[b * size..(b + 1) * size];
                        let mut built: Vec<(usize, Prepared, ProgCase)> = Vec::new();
                        for (i, t) in slice.iter().enumerate() {
                            local.evaluations += 1;
                            match self.build(t) {
                                Ok((p, pc)) => {
                                    self.classify(&p, &pc, t, &mut local);
                                    if local.samples.len() < 1 {
                                        local.samples.push(json!({"case": describe_case(&p), "generated_source": pc.source}));
                                    }
                                    built.push((i, p, pc));
                                }
                                Err(f) => {
                                    let mut g = first.lock().unwrap();
                                    if g.is_none() {
                                        *g = Some((f, t.clone()));
                                    }
                                }
                            }
                        }
                        let progs: Vec<ProgCase> = built.iter().map(|x| x.2.clone()).collect();
                        let dir = verif_root().join("work").join(format!("{}-{}-b{}", self.id, std::process::id(), b));
                        local.count("compile_batches");
                        match run_batch(&dir, &progs, self.deser) {
                            Err(e) => {
                                let mut g = first.lock().unwrap();
                                if g.is_none() {
                                    *g = Some((Failure::new(e).with_signature("infrastructure"), Tapes::default()));
                                }
                            }
                            Ok(results) => {
                                for ((i, p, pc), r) in built.iter().zip(results.iter()) {
                                    if let Err(f) = self.judge(p, pc, r, &mut local) {
                                        let is_known = f.signature.as_ref().map(|s| known.contains(s)).unwrap_or(false);
                                        if is_known {
                                            let sig = f.signature.clone().unwrap();
                                            let e = local.known.entry(sig).or_insert((0, json!({"tapes": {"a": hex(&slice[*i].a), "b": hex(&slice[*i].b), "c": hex(&slice[*i].c)}, "message": f.msg})));
                                            e.0 += 1;
                                        } else {
                                            let mut g = first.lock().unwrap();
                                            if g.is_none() {
                                                *g = Some((f, slice[*i].clone()));
                                            }
                                        }
                                    } else if self.known_slice(&slice[*i]) {
                                        local.count("known_finding_slice.no_discrepancy");
                                    }
                                }
                            }
                        }
                    }
                    merged.lock().unwrap().merge(local);
                });
            }
        });
        st.merge(merged.into_inner().unwrap());
        st.add("programs", (batches * size) as u64);
        match first.into_inner().unwrap() {
            None => Ok(()),
            Some((f, t)) => {
                if f.signature.as_deref() == Some("infrastructure") {
                    return Err((f, Value::Null));
                }
                let shrunk = self.shrink(&t, &f.signature, 240);
                let mut scratch = Stats::default();
                scratch.frozen = true;
                let f2 = match self.run_single(&shrunk, &mut scratch) {
                    Err(f2) if f2.signature.as_deref() != Some("infrastructure") => f2,
                    _ => f,
                };
                Err((f2, json!({"a": hex(&shrunk.a), "b": hex(&shrunk.b), "c": hex(&shrunk.c)})))
            }
        }
    }
    fn replay_custom(&self, payload: &Value) -> Result<(), Failure> {
        if let Some(l) = payload["big_family"].as_str() {
            return super::smallscope::replay_big_family(l, |d, b| self.static_oracle(d, b)).map_err(Failure::new);
        }
        let t = Tapes { a: unhex(payload["a"].as_str().unwrap_or("")), b: unhex(payload["b"].as_str().unwrap_or("")), c: unhex(payload["c"].as_str().unwrap_or("")), small: false };
        let mut st = Stats::default();
        self.run_single(&t, &mut st)
    }
    fn rule(&self) -> String {
        match self.deser {
            Deser::QuickXml => "tape-decoded data-oriented document sequences (1..4 documents; every occurrence text-bearing xor child-bearing, blanks may sit between children; no two names of a case equal after prefix removal; all name classes incl. keywords, prefixes, xmlns/xml:lang attributes, case variants, String/Option/Vec/Self/Serialize names; CDATA, comments, PIs, DOCTYPE, predefined entities and character references). Each generated program = CLI header + rendering (one case in four with sort-by-name on top of the preset), unchanged, plus a copy with #[serde(deny_unknown_fields)] on every struct; 50-100 programs are compiled by one direct rustc call (edition 2021) against prebuilt serde/quick-xml rlibs (features serialize + overlapped-lists) and run: quick_xml::de::from_str::<first struct> on every source document; the value is printed through an own serde::Serializer and compared with the document (every attribute value, every text content trimmed, children incl. Vec lengths and order, nothing unaccounted). A first stage checks 40 000 (quick) / 1.5 M (thorough) further generated cases without rustc for the necessary conditions of compilation (syn parse, the C04 oracle, no struct named like the serde import) and of deserialization (every source document is admitted by the struct tree, as in C01). Non-trivial = program has two or more structs or an Option/Vec field (and, in the compile stage, a value was compared); distinct by hash of documents and surface tape; distinct_nontrivial counts both stages, `programs` only the compiled ones.".into(),
            Deser::SerdeXmlRs => "as C02 but namespace-free (no ':' in names, no xmlns attributes), attribute names disjoint from element names, repeated children adjacent, child-bearing occurrences without any character data; serde-xml-rs preset, serde_xml_rs::from_str (0.6.0), no deny_unknown_fields variant. The main search excludes by construction the region of the open finding (a name is either a text leaf or structural); one case in twenty generates that region and must show exactly the known signature or nothing. The static first stage and the counting are as in C02.".into(),
        }
    }
    fn assumptions(&self) -> Vec<String> {
        let mut v = vec![
            "custom (DTD-declared) entities are not used in content: the deserializers reject them whatever the struct looks like".into(),
            "text comparison ignores surrounding whitespace; differences confined to whitespace inside the text are counted, not reported".into(),
            "programs are compiled with the stable rustc on PATH, edition 2021, against serde 1.0.229 / quick-xml 0.37.5 / serde-xml-rs 0.6.0".into(),
        ];
        if self.deser == Deser::QuickXml {
            v.push("quick-xml is built with the overlapped-lists feature, which its documentation prescribes for interleaved repeated children; blank character data in child-bearing elements is written as text, not CDATA (quick-xml does not trim CDATA and reports several text groups as duplicate field)".into());
        }
        v
    }
    fn describe(&self, tapes: &Tapes) -> Value {
        describe_case(&prepare(tapes, &self.domain(tapes), &surface(self.deser)))
    }
    fn extra_coverage(&self, st: &Stats) -> Value {
        json!({"programs": st.counters.get("programs").copied().unwrap_or(0)})
    }
    fn health(&self, _tier: Tier) -> Vec<(&'static str, u64)> {
        vec![("nontrivial", 250), ("has_option_field", 150), ("has_vec_field", 150), ("attribute_values_compared", 1000), ("text_values_compared", 300)]
    }
}
