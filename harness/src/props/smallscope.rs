//! Small-scope exhaustive generator (C03, C01): every document over root `r`, child names {a, b},
//! one attribute `k`, optional text, up to `max_nodes` elements and depth <= 3 — and every ordered
//! pair (and, for the smallest scope, triple) of such documents as parse(D1), extend(D2)[, extend(D3)].

use crate::model::{Item, Node};

fn sequences(budget: usize, depth: usize, names: &[&str], out: &mut Vec<Vec<Node>>) {
    // all ordered sequences of child subtrees using at most `budget` nodes in total
    out.push(vec![]);
    if budget == 0 || depth == 0 {
        return;
    }
    for first_size in 1..=budget {
        for first in nodes_exact(first_size, depth, names) {
            let mut rest = Vec::new();
            sequences(budget - first_size, depth, names, &mut rest);
            for r in rest {
                let mut v = vec![first.clone()];
                v.extend(r);
                out.push(v);
            }
        }
    }
}

/// all child subtrees with exactly `size` nodes and height <= depth
fn nodes_exact(size: usize, depth: usize, names: &[&str]) -> Vec<Node> {
    let mut out = Vec::new();
    if size == 0 || depth == 0 {
        return out;
    }
    let mut seqs = Vec::new();
    sequences(size - 1, depth - 1, names, &mut seqs);
    for seq in seqs.into_iter().filter(|s| s.iter().map(|n| n.count_nodes()).sum::<usize>() == size - 1) {
        for name in names.iter().copied() {
            for attr in [false, true] {
                for text in [false, true] {
                    let mut items: Vec<Item> = Vec::new();
                    if text {
                        items.push(Item::Chars { blank: false });
                    }
                    items.extend(seq.iter().cloned().map(Item::Child));
                    out.push(Node { name: name.to_string(), attrs: if attr { vec!["k".to_string()] } else { vec![] }, items });
                }
            }
        }
    }
    out
}

/// all documents with root `r` and at most `max_nodes` elements (root included), depth <= 3
pub fn documents(max_nodes: usize) -> Vec<Node> {
    documents_over(max_nodes, &["a", "b"])
}

/// the same enumeration over another child-name alphabet (C04/C14: colliding and concatenating names)
pub fn documents_over(max_nodes: usize, names: &[&str]) -> Vec<Node> {
    let mut out = Vec::new();
    let mut seqs = Vec::new();
    sequences(max_nodes - 1, 2, names, &mut seqs);
    for seq in seqs {
        for attr in [false, true] {
            for text in [false, true] {
                let mut items: Vec<Item> = Vec::new();
                if text {
                    items.push(Item::Chars { blank: false });
                }
                items.extend(seq.iter().cloned().map(Item::Child));
                out.push(Node { name: "r".to_string(), attrs: if attr { vec!["k".to_string()] } else { vec![] }, items });
            }
        }
    }
    out
}

/// documents for counter / size thresholds: child `c` repeated n times inside one occurrence of `p`
pub fn threshold_family(n: usize) -> Vec<Vec<Node>> {
    let leaf = |name: &str| Node { name: name.to_string(), attrs: vec![], items: vec![] };
    let el = |name: &str, kids: Vec<Node>| Node { name: name.to_string(), attrs: vec![], items: kids.into_iter().map(Item::Child).collect() };
    let many = |name: &str, n: usize| -> Vec<Node> { (0..n).map(|_| leaf(name)).collect() };
    let mut out: Vec<Vec<Node>> = Vec::new();
    // one document, the repeated child in the second / first / middle occurrence of its parent
    out.push(vec![el("r", vec![el("p", vec![leaf("c")]), el("p", many("c", n))])]);
    out.push(vec![el("r", vec![el("p", many("c", n)), el("p", vec![leaf("c")])])]);
    out.push(vec![el("r", vec![el("p", vec![leaf("c"), leaf("d")]), el("p", many("c", n)), el("p", vec![leaf("c"), leaf("d")])])]);
    let mut mixed = many("c", n);
    mixed.push(leaf("d"));
    out.push(vec![el("r", vec![el("p", vec![leaf("c"), leaf("d")]), el("p", mixed.clone()), el("p", vec![leaf("d")])])]);
    // across documents
    out.push(vec![el("r", vec![leaf("c")]), el("r", many("c", n))]);
    out.push(vec![el("r", many("c", n)), el("r", vec![leaf("c")]), el("r", vec![])]);
    // n occurrences of the parent itself
    let ps: Vec<Node> = (0..n).map(|i| el("p", if i % 2 == 0 { vec![leaf("c")] } else { vec![leaf("c"), leaf("d")] })).collect();
    out.push(vec![el("r", ps)]);
    let mut ps2: Vec<Node> = (0..n).map(|_| el("p", vec![leaf("c")])).collect();
    ps2.push(el("p", vec![]));
    out.push(vec![el("r", ps2)]);
    // attribute lists of length n: shared prefix + new attributes, reversed order, a single shared attribute first
    if n <= 1100 {
        let with_attrs = |attrs: Vec<String>| Node { name: "p".to_string(), attrs, items: vec![] };
        let names = |k: usize| -> Vec<String> { (0..k).map(|i| format!("a{}", i)).collect() };
        let mut longer = names(n);
        longer.push("zz".to_string());
        out.push(vec![el("r", vec![with_attrs(vec!["a0".to_string()]), with_attrs(longer.clone())])]);
        out.push(vec![el("r", vec![with_attrs(names(n)), with_attrs(longer.clone())])]);
        let mut rev = names(n);
        rev.reverse();
        out.push(vec![el("r", vec![with_attrs(names(n)), with_attrs(rev)])]);
        out.push(vec![el("r", vec![with_attrs(longer), with_attrs(names(n / 2))])]);
        // n distinct children under one parent, then a second occurrence with one more / one less
        let kids = |k: usize| -> Vec<Node> { (0..k).map(|i| leaf(&format!("k{}", i))).collect() };
        let mut more = kids(n);
        more.push(leaf("zz"));
        out.push(vec![el("r", vec![el("p", kids(n)), el("p", more)])]);
        out.push(vec![el("r", vec![el("p", kids(n)), el("p", kids(n.saturating_sub(1)))])]);
        let mut twice = kids(n);
        twice.extend(kids(n));
        out.push(vec![el("r", vec![el("p", twice)])]);
        // n documents: d in every second one; c missing from the last one only
        out.push((0..n).map(|i| el("r", if i % 2 == 0 { vec![leaf("c")] } else { vec![leaf("c"), leaf("d")] })).collect());
        out.push((0..n).map(|i| el("r", if i + 1 == n { vec![leaf("d")] } else { vec![leaf("c"), leaf("d")] })).collect());
    }
    out
}

/// enumerate all `arity`-tuples of documents and apply `oracle`; returns (sequences run, non-trivial ones, first failure)
pub fn run_tuples<F>(max_nodes: usize, arity: usize, oracle: F) -> (u64, u64, Option<(String, Vec<String>)>)
where
    F: Fn(&[&Node], &[Vec<u8>]) -> Result<bool, String> + Sync,
{
    run_tuples_over(documents(max_nodes), arity, oracle)
}

pub fn run_tuples_over<F>(docs: Vec<Node>, arity: usize, oracle: F) -> (u64, u64, Option<(String, Vec<String>)>)
where
    F: Fn(&[&Node], &[Vec<u8>]) -> Result<bool, String> + Sync,
{
    let bytes: Vec<Vec<u8>> = docs.iter().map(|d| crate::xmlser::canonical(d).into_bytes()).collect();
    let n = docs.len();
    let total = (n as u64).pow(arity as u32);
    let threads = 16u64;
    let stop = std::sync::atomic::AtomicBool::new(false);
    let results: Vec<(u64, u64, Option<(String, Vec<String>)>)> = std::thread::scope(|s| {
        let hs: Vec<_> = (0..threads)
            .map(|ti| {
                let docs = &docs;
                let bytes = &bytes;
                let oracle = &oracle;
                let stop = &stop;
                s.spawn(move || {
                    let mut evals = 0u64;
                    let mut nts = 0u64;
                    let mut idx = ti;
                    while idx < total {
                        if evals % 4096 == 0 && stop.load(std::sync::atomic::Ordering::Relaxed) {
                            break;
                        }
                        let mut x = idx;
                        let mut sel: Vec<usize> = Vec::with_capacity(arity);
                        for _ in 0..arity {
                            sel.push((x % n as u64) as usize);
                            x /= n as u64;
                        }
                        let ds: Vec<&Node> = sel.iter().map(|i| &docs[*i]).collect();
                        let bs: Vec<Vec<u8>> = sel.iter().map(|i| bytes[*i].clone()).collect();
                        evals += 1;
                        match oracle(&ds, &bs) {
                            Ok(nt) => {
                                if nt {
                                    nts += 1
                                }
                            }
                            Err(e) => {
                                stop.store(true, std::sync::atomic::Ordering::Relaxed);
                                return (evals, nts, Some((e, bs.iter().map(|b| String::from_utf8_lossy(b).to_string()).collect())));
                            }
                        }
                        idx += threads;
                    }
                    (evals, nts, None)
                })
            })
            .collect();
        hs.into_iter().map(|h| h.join().expect("join")).collect()
    });
    let mut evals = 0;
    let mut nts = 0;
    let mut first = None;
    for (e, n, f) in results {
        evals += e;
        nts += n;
        if first.is_none() {
            first = f;
        }
    }
    (evals, nts, first)
}

#[cfg(test)]
mod tests {
    #[test]
    fn counts() {
        for n in 1..=5 {
            println!("max_nodes={} documents={}", n, super::documents(n).len());
        }
    }
}

// ---------------------------------------------------------------------------------------
// families beyond the small scope: sizes around limits a maintainer might plausibly introduce (inline capacities,
// sliding windows, two-digit suffixes, "switch algorithm above n" thresholds). Fixed, enumerated, cheap.

/// n sibling elements whose names differ only in separators (`a`, `a_`, `a-`, `a.`, `a__`, ...): they all have the
/// PascalCase form `A` and the snake_case form `a`, and each gets a struct (one attribute) - n colliding struct names
/// and n colliding field identifiers in one struct
pub fn collision_swarm(n: usize) -> Node {
    let mut kids = Vec::with_capacity(n);
    for k in 0..n {
        // bijective base-3 numeral over the separators
        let mut name = String::from("a");
        let mut x = k;
        while x > 0 {
            x -= 1;
            name.push(['_', '-', '.'][x % 3]);
            x /= 3;
        }
        kids.push(Item::Child(Node { name, attrs: vec!["k".to_string()], items: vec![] }));
    }
    Node { name: "r".to_string(), attrs: vec![], items: kids }
}

pub const BIG_SIZES: &[usize] = &[9, 15, 16, 17, 24, 25, 26, 27, 31, 32, 33, 34, 40, 41, 42, 63, 64, 65, 99, 100, 101, 127, 128, 129, 255, 256, 257, 300];

/// (label, document sequence)
pub fn big_families() -> Vec<(String, Vec<Node>)> {
    let leaf = |name: &str| Node { name: name.to_string(), attrs: vec![], items: vec![] };
    let el = |name: &str, kids: Vec<Node>| Node { name: name.to_string(), attrs: vec![], items: kids.into_iter().map(Item::Child).collect() };
    let with_attrs = |attrs: Vec<String>| Node { name: "p".to_string(), attrs, items: vec![] };
    let names = |k: usize| -> Vec<String> { (0..k).map(|i| format!("a{}", i)).collect() };
    let kids = |k: usize| -> Vec<Node> { (0..k).map(|i| leaf(&format!("k{}", i))).collect() };
    let fresh = ["zz", "zy", "b_new", "Zx", "a_new", "zw"];
    let mut out: Vec<(String, Vec<Node>)> = Vec::new();
    for &n in BIG_SIZES {
        for (i, docs) in threshold_family(n).into_iter().enumerate() {
            out.push((format!("threshold n={} #{}", n, i), docs));
        }
        out.push((format!("collision swarm n={}", n), vec![collision_swarm(n)]));
        // a swarm spread over two documents (the second adds the last third)
        let full = collision_swarm(n);
        let mut first = full.clone();
        first.items.truncate(n - n / 3);
        out.push((format!("collision swarm n={} in two documents", n), vec![first, full]));
        // several new attributes / children at once on top of n known ones, in and against name order
        let mut more = names(n);
        more.extend(fresh.iter().map(|s| s.to_string()));
        out.push((format!("n={} attributes, then six new ones", n), vec![el("r", vec![with_attrs(names(n)), with_attrs(more.clone())])]));
        let mut front = fresh.iter().map(|s| s.to_string()).collect::<Vec<_>>();
        front.extend(names(n));
        out.push((format!("n={} attributes, then six new ones in front", n), vec![el("r", vec![with_attrs(names(n)), with_attrs(front)])]));
        out.push((format!("n={} attributes, six new ones in a second document", n), vec![el("r", vec![with_attrs(names(n))]), el("r", vec![with_attrs(more)])]));
        let mut more_kids = kids(n);
        more_kids.extend(fresh.iter().map(|s| leaf(s)));
        out.push((format!("n={} children, then six new ones", n), vec![el("r", vec![el("p", kids(n)), el("p", more_kids)])]));
        // nesting depth n: distinct names, one name throughout, alternating names; the innermost element carries an
        // attribute and a text leaf, a second document adds a sibling leaf at the bottom (optional at depth n)
        {
            let chain = |name_of: &dyn Fn(usize) -> String, extra: bool| -> Node {
                let mut bottom_kids = vec![Item::Child(Node { name: "v".to_string(), attrs: vec![], items: vec![Item::Chars { blank: false }] })];
                if extra {
                    bottom_kids.push(Item::Child(leaf("w")));
                }
                let mut cur = Node { name: name_of(n), attrs: vec!["k".to_string()], items: bottom_kids };
                for lvl in (1..n).rev() {
                    cur = Node { name: name_of(lvl), attrs: vec![], items: vec![Item::Child(cur)] };
                }
                cur
            };
            let distinct = |i: usize| format!("l{}", i);
            let same = |_i: usize| "a".to_string();
            let alternating = |i: usize| if i % 2 == 0 { "a".to_string() } else { "b".to_string() };
            out.push((format!("chain of depth n={} over distinct names", n), vec![chain(&distinct, false)]));
            out.push((format!("chain of depth n={} over distinct names, two documents", n), vec![chain(&distinct, false), chain(&distinct, true)]));
            out.push((format!("chain of depth n={} over one name", n), vec![chain(&same, false), chain(&same, true)]));
            out.push((format!("chain of depth n={} over alternating names", n), vec![chain(&alternating, true), chain(&alternating, false)]));
        }
        // a child, n other children, the same child again (sliding windows over the names seen in one parent)
        let mut around = vec![leaf("x")];
        around.extend(kids(n));
        around.push(leaf("x"));
        out.push((format!("a child repeated after n={} other children", n), vec![el("r", vec![el("p", around)])]));
    }
    out
}

/// run `oracle` over all big families on 16 threads; returns (families run, first failure as (label, message, documents))
pub fn run_big_families<F>(oracle: F) -> (u64, Option<(String, String, Vec<String>)>)
where
    F: Fn(&[&Node], &[Vec<u8>]) -> Result<bool, String> + Sync,
{
    run_big_families_where(|_| true, oracle)
}

/// the same over the families whose label satisfies `keep`
pub fn run_big_families_where<K, F>(keep: K, oracle: F) -> (u64, Option<(String, String, Vec<String>)>)
where
    K: Fn(&str) -> bool,
    F: Fn(&[&Node], &[Vec<u8>]) -> Result<bool, String> + Sync,
{
    let fams: Vec<(String, Vec<Node>)> = big_families().into_iter().filter(|(l, _)| keep(l)).collect();
    let next = std::sync::atomic::AtomicUsize::new(0);
    let fail: std::sync::Mutex<Option<(usize, String)>> = std::sync::Mutex::new(None);
    std::thread::scope(|s| {
        for _ in 0..16 {
            let fams = &fams;
            let next = &next;
            let fail = &fail;
            let oracle = &oracle;
            s.spawn(move || loop {
                let i = next.fetch_add(1, std::sync::atomic::Ordering::Relaxed);
                if i >= fams.len() || fail.lock().unwrap().is_some() {
                    break;
                }
                let refs: Vec<&Node> = fams[i].1.iter().collect();
                let bytes: Vec<Vec<u8>> = fams[i].1.iter().map(|d| crate::xmlser::canonical(d).into_bytes()).collect();
                if let Err(e) = oracle(&refs, &bytes) {
                    let mut g = fail.lock().unwrap();
                    if g.as_ref().map(|(j, _)| *j > i).unwrap_or(true) {
                        *g = Some((i, e));
                    }
                    break;
                }
            });
        }
    });
    let n = fams.len() as u64;
    match fail.into_inner().unwrap() {
        None => (n, None),
        Some((i, e)) => {
            let docs: Vec<String> = fams[i].1.iter().map(|d| { let s = crate::xmlser::canonical(d); if s.len() > 400 { format!("{}... ({} bytes)", s.chars().take(400).collect::<String>(), s.len()) } else { s } }).collect();
            (n, Some((fams[i].0.clone(), e, docs)))
        }
    }
}

/// replay of one family by label
pub fn replay_big_family<F>(label: &str, oracle: F) -> Result<(), String>
where
    F: Fn(&[&Node], &[Vec<u8>]) -> Result<bool, String>,
{
    for (l, docs) in big_families() {
        if l == label {
            let refs: Vec<&Node> = docs.iter().collect();
            let bytes: Vec<Vec<u8>> = docs.iter().map(|d| crate::xmlser::canonical(d).into_bytes()).collect();
            return oracle(&refs, &bytes).map(|_| ());
        }
    }
    Err(format!("no family is labelled `{}`", label))
}
