//! C09 — field order follows the document, or the XML name when sorting is requested.

use super::common::*;
use crate::model::{attr_bound_local, local_of, Domain, Node};
use crate::refinf::{infer_docs, Schema};
use crate::rendered::RNode;
use crate::runner::{hash_of, Failure, Property, Stats, Tapes, Tier};
use crate::sut;
use crate::xmlser::SurfaceCfg;
use serde_json::{json, Value};

pub struct C09;

fn kinds_ok(k: &str) -> bool {
    // a* t? c*
    let b = k.as_bytes();
    let mut i = 0;
    while i < b.len() && b[i] == b'a' {
        i += 1;
    }
    if i < b.len() && b[i] == b't' {
        i += 1;
    }
    while i < b.len() && b[i] == b'c' {
        i += 1;
    }
    i == b.len()
}

/// relative order of the items both sides know
fn common_order<'a>(expected: &[&'a str], got: &[&'a str]) -> (Vec<&'a str>, Vec<&'a str>) {
    let e: Vec<&str> = expected.iter().copied().filter(|x| got.contains(x)).collect();
    let g: Vec<&str> = got.iter().copied().filter(|x| expected.contains(x)).collect();
    (e, g)
}

fn check_unsorted(s: &Schema, r: &RNode, path: &str) -> Result<(), String> {
    let here = format!("{}/{}", path, s.name);
    if !kinds_ok(&r.kinds) {
        return Err(format!("{}: struct {} does not list attributes, then text, then children (kinds `{}`)", here, r.struct_name, r.kinds));
    }
    let exp: Vec<&str> = s.attrs.iter().map(|a| attr_bound_local(&a.name)).collect();
    let got: Vec<&str> = r.attrs.iter().map(|a| a.bound.as_str()).collect();
    let (e, g) = common_order(&exp, &got);
    if e != g {
        return Err(format!("{}: attributes first appear in the documents as {:?} but struct {} lists them as {:?}", here, e, r.struct_name, g));
    }
    let exp: Vec<&str> = s.children.iter().map(|c| local_of(&c.schema.name)).collect();
    let got: Vec<&str> = r.children.iter().map(|c| c.bound.as_str()).collect();
    let (e, g) = common_order(&exp, &got);
    if e != g {
        return Err(format!("{}: children first appear in the documents as {:?} but struct {} lists them as {:?}", here, e, r.struct_name, g));
    }
    for c in &s.children {
        if let Some(f) = r.child(local_of(&c.schema.name)) {
            if let Some(n) = &f.node {
                check_unsorted(&c.schema, n, &here)?;
            }
        }
    }
    Ok(())
}

fn check_sorted(s: &Schema, r: &RNode, path: &str) -> Result<(), String> {
    let here = format!("{}/{}", path, s.name);
    if !kinds_ok(&r.kinds) {
        return Err(format!("{}: (sorted) struct {} does not list attributes, then text, then children (kinds `{}`)", here, r.struct_name, r.kinds));
    }
    // map bound names back to full XML names through the model (injective in the domain)
    let full_attr: Vec<&str> = r.attrs.iter().filter_map(|f| s.attrs.iter().find(|a| attr_bound_local(&a.name) == f.bound).map(|a| a.name.as_str())).collect();
    if full_attr.windows(2).any(|w| w[0] > w[1]) {
        return Err(format!("{}: with sort-by-name the attributes of struct {} are not ascending by XML name: {:?}", here, r.struct_name, full_attr));
    }
    let full_child: Vec<&str> =
        r.children.iter().filter_map(|f| s.children.iter().find(|c| local_of(&c.schema.name) == f.bound).map(|c| c.schema.name.as_str())).collect();
    if full_child.windows(2).any(|w| w[0] > w[1]) {
        return Err(format!("{}: with sort-by-name the children of struct {} are not ascending by XML name: {:?}", here, r.struct_name, full_child));
    }
    for c in &s.children {
        if let Some(f) = r.child(local_of(&c.schema.name)) {
            if let Some(n) = &f.node {
                check_sorted(&c.schema, n, &here)?;
            }
        }
    }
    Ok(())
}

/// the two renderings differ in nothing but orders
fn same_up_to_order(u: &RNode, s: &RNode, path: &str) -> Result<(), String> {
    let here = format!("{}/{}", path, u.struct_name);
    if u.struct_name != s.struct_name {
        return Err(format!("{}: struct is named {} unsorted but {} with sort-by-name", here, u.struct_name, s.struct_name));
    }
    let key_a = |n: &RNode| {
        let mut v: Vec<(String, String, bool)> = n.attrs.iter().map(|a| (a.bound.clone(), a.ident.clone(), a.optional)).collect();
        v.sort();
        v
    };
    if key_a(u) != key_a(s) {
        return Err(format!("{}: attribute fields differ between the two sort options: {:?} vs {:?}", here, key_a(u), key_a(s)));
    }
    if u.text != s.text {
        return Err(format!("{}: text field differs between the two sort options", here));
    }
    let key_c = |n: &RNode| {
        let mut v: Vec<(String, String, bool, bool, String)> = n.children.iter().map(|c| (c.bound.clone(), c.ident.clone(), c.optional, c.vec, c.base.clone())).collect();
        v.sort();
        v
    };
    if key_c(u) != key_c(s) {
        return Err(format!("{}: child fields differ between the two sort options: {:?} vs {:?}", here, key_c(u), key_c(s)));
    }
    for c in &u.children {
        let d = s.child(&c.bound).ok_or_else(|| format!("{}: child {} missing when sorted", here, c.bound))?;
        match (&c.node, &d.node) {
            (Some(a), Some(b)) => same_up_to_order(a, b, &here)?,
            (None, None) => {}
            _ => return Err(format!("{}: child {} is a struct under one option and String under the other", here, c.bound)),
        }
    }
    Ok(())
}

/// non-trivial: a later occurrence introduces >= 2 new attributes or >= 2 new children at once,
/// or a position with >= 3 children has an optional child
fn interesting(occs: &[&Node], s: &Schema) -> bool {
    let mut seen_a: Vec<&str> = Vec::new();
    let mut seen_c: Vec<&str> = Vec::new();
    for (i, o) in occs.iter().enumerate() {
        let new_a: Vec<&str> = o.attrs.iter().map(|a| a.as_str()).filter(|a| !seen_a.contains(a)).collect();
        let mut new_c: Vec<&str> = Vec::new();
        for c in o.children() {
            if !seen_c.contains(&c.name.as_str()) && !new_c.contains(&c.name.as_str()) {
                new_c.push(&c.name);
            }
        }
        if i > 0 && (new_a.len() >= 2 || new_c.len() >= 2) {
            return true;
        }
        seen_a.extend(new_a);
        seen_c.extend(new_c);
    }
    if s.children.len() >= 3 && s.children.iter().any(|c| c.optional) {
        return true;
    }
    s.children.iter().any(|c| {
        let sub: Vec<&Node> = occs.iter().flat_map(|o| o.children().filter(|x| x.name == c.schema.name)).collect();
        interesting(&sub, &c.schema)
    })
}

fn small_oracle(docs: &[&Node], bytes: &[Vec<u8>]) -> Result<bool, String> {
    let schema = crate::refinf::infer("r", docs);
    let root = crate::sut::parse_seq(bytes).map_err(|(i, e)| format!("document #{} rejected: {}", i + 1, e))?;
    let mut trees = Vec::new();
    let mut srcs = Vec::new();
    for by_name in [false, true] {
        let src = root.to_serde_struct(&sut::opts_quick(by_name, "Serialize, Deserialize"));
        let defs = crate::rendered::read_lines(&src).map_err(|e| format!("output unreadable: {}\n{}", e, src))?;
        trees.push(crate::rendered::build_tree(&defs, "@", "$text").map_err(|e| format!("not a tree: {}\n{}", e, src))?);
        srcs.push(src);
    }
    check_unsorted(&schema, &trees[0], "").map_err(|e| format!("unsorted rendering: {}\n{}", e, srcs[0]))?;
    check_sorted(&schema, &trees[1], "").map_err(|e| format!("{}\n{}", e, srcs[1]))?;
    same_up_to_order(&trees[0], &trees[1], "").map_err(|e| format!("switching the sort option changed more than orders: {}", e))?;
    Ok(interesting(docs, &schema))
}

fn big_oracle(docs: &[&Node], bytes: &[Vec<u8>]) -> Result<bool, String> {
    small_oracle(docs, bytes)
}

impl Property for C09 {
    fn id(&self) -> &'static str {
        "C09"
    }
    fn tape_sizes(&self) -> (usize, usize, usize) {
        (900, 500, 0)
    }
    fn cases(&self, tier: Tier) -> u64 {
        match tier {
            Tier::Quick => 60_000,
            Tier::Thorough => 3_000_000,
        }
    }
    fn check(&self, tapes: &Tapes, st: &mut Stats) -> Result<(), Failure> {
        let p = prepare(tapes, &Domain::general(), &SurfaceCfg::full());
        let schema = infer_docs(&p.case.docs);
        let occs: Vec<&Node> = p.case.docs.iter().collect();
        if interesting(&occs, &schema) {
            st.nontrivial(hash_of(&p.case.docs));
            st.count("several_new_at_once_or_demotion_among_3+");
        }
        st.count(&format!("docs.k={}", p.case.docs.len()));
        if p.case.wide {
            st.count("wide_mode");
        }
        st.sample(|| describe_case(&p));
        let root = parse_docs(&p.bytes)?;
        let (src_u, defs_u, tree_u) = render_tree(&root, &sut::opts_quick(false, "Serialize, Deserialize"))?;
        let (src_s, defs_s, tree_s) = render_tree(&root, &sut::opts_quick(true, "Serialize, Deserialize"))?;
        let detail = || json!({"case": describe_case(&p), "unsorted": src_u, "sorted": src_s});
        check_unsorted(&schema, &tree_u, "").map_err(|e| Failure::new(format!("unsorted rendering: {}", e)).with_detail(detail()))?;
        check_sorted(&schema, &tree_s, "").map_err(|e| Failure::new(e).with_detail(detail()))?;
        if defs_u.len() != defs_s.len() {
            return Err(Failure::new(format!("{} structs unsorted but {} with sort-by-name", defs_u.len(), defs_s.len())).with_detail(detail()));
        }
        same_up_to_order(&tree_u, &tree_s, "").map_err(|e| Failure::new(format!("switching the sort option changed more than orders: {}", e)).with_detail(detail()))?;
        // line-level: same multiset of lines
        let mut lu: Vec<&str> = src_u.lines().collect();
        let mut ls: Vec<&str> = src_s.lines().collect();
        lu.sort();
        ls.sort();
        if lu != ls {
            return Err(Failure::new("the two renderings are not permutations of the same lines").with_detail(detail()));
        }
        Ok(())
    }
    fn extra(&self, tier: Tier, _seed: u64, st: &mut Stats) -> Result<(), (Failure, Value)> {
        // small-scope exhaustive part: orders on every ordered pair / triple of small documents
        let scopes: &[(usize, usize)] = match tier {
            Tier::Quick => &[(3, 2), (2, 3)],
            Tier::Thorough => &[(4, 2), (2, 3)],
        };
        for (max_nodes, arity) in scopes {
            let (evals, nts, fail) = super::smallscope::run_tuples(*max_nodes, *arity, small_oracle);
            st.evaluations += evals;
            st.nontrivial_enumerated += nts;
            st.add(&format!("exhaustive.nodes<={}.sequences_of_{}", max_nodes, arity), evals);
            if let Some((e, docs)) = fail {
                return Err((Failure::new(format!("small-scope exhaustive search: {}", e)).with_detail(json!({"documents": docs})), json!({"small_scope_documents": docs})));
            }
        }
        // families beyond the small scope (sizes around plausible limits: windows, inline capacities, two-digit suffixes)
        {
            let (n, fail) = super::smallscope::run_big_families(big_oracle);
            st.evaluations += n;
            st.nontrivial_enumerated += n;
            st.add("big_families", n);
            if let Some((label, e, docs)) = fail {
                let first = e.lines().next().unwrap_or("").to_string();
                return Err((Failure::new(format!("family `{}`: {}", label, first)).with_detail(json!({"documents": docs, "message": e})), json!({"big_family": label})));
            }
        }
        // sort keys: every ordered triple of names whose order depends on how prefixes, digits, separators, case and
        // non-ASCII letters are compared, as children (with an attribute each, so they get structs) and as attributes
        {
            const TRICKY: &[&str] = &["a", "a1", "a:x", "a-b", "a.b", "A", "ab", "a:b:c", "ns:a", "ns1:a", "ns-1:a", "é", "Z", "_a", "a_", "a1:x", "B", "b"];
            let mut docs: Vec<Node> = Vec::new();
            for x in 0..TRICKY.len() {
                for y in 0..TRICKY.len() {
                    for z in 0..TRICKY.len() {
                        if x == y || y == z || x == z {
                            continue;
                        }
                        // no two names of one element may be equal after prefix removal (domain of the statement's reference model)
                        let locals: Vec<&str> = [x, y, z].iter().map(|i| local_of(TRICKY[*i])).collect();
                        if locals[0] == locals[1] || locals[1] == locals[2] || locals[0] == locals[2] {
                            continue;
                        }
                        let names = [TRICKY[x], TRICKY[y], TRICKY[z]];
                        docs.push(Node {
                            name: "r".into(),
                            attrs: vec![],
                            items: names.iter().map(|n| crate::model::Item::Child(Node { name: n.to_string(), attrs: vec!["k".into()], items: vec![] })).collect(),
                        });
                        docs.push(Node { name: "r".into(), attrs: names.iter().map(|n| n.to_string()).collect(), items: vec![] });
                    }
                }
            }
            let (evals, nts, fail) = super::smallscope::run_tuples_over(docs, 1, small_oracle);
            st.evaluations += evals;
            st.nontrivial_enumerated += nts;
            st.add("exhaustive.sort_key_triples", evals);
            if let Some((e, docs)) = fail {
                return Err((Failure::new(format!("sort-key family: {}", e)).with_detail(json!({"documents": docs})), json!({"small_scope_documents": docs})));
            }
        }
        Ok(())
    }
    fn replay_custom(&self, payload: &Value) -> Result<(), Failure> {
        if let Some(l) = payload["big_family"].as_str() {
            return super::smallscope::replay_big_family(l, big_oracle).map_err(Failure::new);
        }
        // canonical documents; C03's replay rebuilds the DOM only for the a/b alphabet, so re-check orders on the parsed tree directly
        let docs: Vec<Vec<u8>> = payload["small_scope_documents"].as_array().map(|a| a.iter().map(|d| d.as_str().unwrap_or("").as_bytes().to_vec()).collect()).unwrap_or_default();
        let root = crate::sut::parse_seq(&docs).map_err(|(i, e)| Failure::new(format!("document #{} rejected: {}", i + 1, e)))?;
        let mut trees = Vec::new();
        for by_name in [false, true] {
            let src = root.to_serde_struct(&sut::opts_quick(by_name, "Serialize, Deserialize"));
            let defs = crate::rendered::read_lines(&src).map_err(Failure::new)?;
            trees.push((crate::rendered::build_tree(&defs, "@", "$text").map_err(Failure::new)?, src));
        }
        same_up_to_order(&trees[0].0, &trees[1].0, "").map_err(Failure::new)?;
        // sorted rendering: bound names ascending by full XML name cannot be rebuilt without the DOM; compare with the element tree
        fn sorted_ok(e: &crate::sut::Element<String>, r: &RNode) -> Result<(), String> {
            let full: Vec<String> = r.children.iter().filter_map(|f| e.children().iter().map(|c| c.inner_t().name.clone()).find(|n| local_of(n) == f.bound)).collect();
            if full.windows(2).any(|w| w[0] > w[1]) {
                return Err(format!("children of struct {} are not ascending by XML name: {:?}", r.struct_name, full));
            }
            for f in &r.children {
                if let (Some(sub), Some(ce)) = (&f.node, e.children().iter().map(|c| c.inner_t()).find(|c| local_of(&c.name) == f.bound)) {
                    sorted_ok(ce, sub)?;
                }
            }
            Ok(())
        }
        sorted_ok(&root, &trees[1].0).map_err(Failure::new)
    }
    fn exhaustive(&self) -> bool {
        true
    }
    fn rule(&self) -> String {
        "small-scope exhaustive: all ordered pairs / triples of small documents (as C03); a sort-key family (every ordered triple of 18 names whose relative order depends on how prefixes, digits, separators, case and non-ASCII letters compare, as children and as attributes); sampled: tape-decoded document sequences (all name classes, full surface variation, 1 in 8 wide); both sort options are rendered, read back into struct trees (struct items consumed in pre-order of the field order) and compared with the reference first-appearance orders (unsorted) and with ascending full XML names (sorted); the two renderings must agree on everything but order. Non-trivial = some later occurrence introduces two or more new attributes or children at once, or a position with three or more children has an optional child; distinct by hash of the structural documents.".into()
    }
    fn assumptions(&self) -> Vec<String> {
        vec![
            "sort-by-name = ascending Rust String order of the full XML name (prefix included), as given in XML".into(),
            "only the relative order of fields that both the documents and the rendering know is compared; missing or extra fields are C03's concern".into(),
        ]
    }
    fn describe(&self, tapes: &Tapes) -> Value {
        describe_case(&prepare(tapes, &Domain::general(), &SurfaceCfg::full()))
    }
    fn health(&self, _tier: Tier) -> Vec<(&'static str, u64)> {
        vec![("nontrivial", 5000), ("wide_mode", 500)]
    }
}
