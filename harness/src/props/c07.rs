//! C07 — no panic, abort or hang on arbitrary input bytes (any buffered reader, any reader configuration),
//! and rendering any Ok result with any options does not panic.

use super::c11::decode_reader;
use super::common::{decode_options, OptSpec};
use crate::bytesgen::{decode_bytes, ByteCase};
use crate::runner::{hash_of, panic_message, Failure, Property, Stats, Tapes, Tier};
use crate::sut::{parse_with, Element, ParserError, ReaderCfg, ReaderKind};
use crate::tape::Tape;
use crate::verdict::nesting_depth;
use serde_json::{json, Value};
use std::panic::{catch_unwind, AssertUnwindSafe};

pub struct C07;

pub const MAX_DEPTH: usize = 200;

fn decode(tapes: &Tapes) -> (ByteCase, ReaderCfg, OptSpec) {
    let mut m = Tape::new(&tapes.c);
    let cfg = decode_reader(&mut m, true);
    let opts = decode_options(&mut m);
    let case = decode_bytes(tapes, &mut m);
    (case, cfg, opts)
}

fn show(b: &[u8]) -> String {
    String::from_utf8_lossy(b).to_string()
}

/// run one history; used by the proptest driver, the corpus replay and the fuzz target
pub fn run_history(inputs: &[Vec<u8>], cfg: &ReaderCfg, opts: &OptSpec, st: Option<&mut Stats>) -> Result<(), String> {
    let mut base: Option<Element<String>> = None;
    let mut local = Stats::default();
    let st = match st {
        Some(s) => s,
        None => &mut local,
    };
    for (i, input) in inputs.iter().enumerate() {
        let depth = nesting_depth(input, cfg.expand_empty, cfg.check_end_names);
        if depth > MAX_DEPTH {
            st.count("skipped.depth>200");
            continue;
        }
        if depth >= 100 {
            st.count("depth.100..200");
        }
        let initial = base.is_none();
        let keep = base.clone();
        let b = base.take();
        let res = catch_unwind(AssertUnwindSafe(|| parse_with(input, b, cfg)));
        let res = match res {
            Ok(r) => r,
            Err(p) => {
                return Err(format!("{} panicked on input #{} ({:?}): {}", if initial { "into_struct" } else { "extend_struct" }, i + 1, cfg, panic_message(p)));
            }
        };
        // only the syntax-error variant is named (C08's statement is about what it carries); the other variants are
        // told apart by the leading identifier of their Debug form, so that a reworked error type still builds
        match &res {
            Ok(_) => st.count("result.ok"),
            Err(ParserError::QuickXmlError(..)) => st.count("result.err_reader"),
            Err(e) => {
                st.count("result.err_other");
                let d = format!("{:?}", e);
                let head: String = d.chars().take_while(|c| c.is_alphanumeric() || *c == '_').take(40).collect();
                st.add(&format!("result.err_other.{}", head), 1);
            }
        }
        match res {
            Ok(r) => {
                for by_name in [false, true] {
                    let mut o = opts.clone();
                    o.by_name = by_name;
                    let rr = catch_unwind(AssertUnwindSafe(|| r.to_serde_struct(&o.to_options())));
                    match rr {
                        Ok(s) => st.add("rendered_bytes", s.len() as u64),
                        Err(p) => return Err(format!("to_serde_struct panicked after input #{} (options {}): {}", i + 1, o.json(), panic_message(p))),
                    }
                }
                st.count("rendered_ok_results");
                base = Some(r);
            }
            Err(e) => {
                // Display of any error must not panic either
                let d = catch_unwind(AssertUnwindSafe(|| format!("{}", e)));
                if let Err(p) = d {
                    return Err(format!("Display of the error panicked: {}", panic_message(p)));
                }
                base = keep;
            }
        }
    }
    Ok(())
}

/// seed corpus for fz_bytes: generated histories (3 config bytes + input) and a few literal documents
pub fn fuzz_seeds(seed: u64) -> Vec<Vec<u8>> {
    let mut out: Vec<Vec<u8>> = Vec::new();
    for t in crate::runner::gen_tapes(&C07, seed ^ 0xf22, 300) {
        let (case, _, _) = decode(&t);
        for (i, inp) in case.inputs.iter().enumerate() {
            let mut v = vec![t.c.first().copied().unwrap_or(0), t.c.get(1).copied().unwrap_or(0), i as u8];
            v.extend_from_slice(inp);
            if v.len() <= 4096 {
                out.push(v);
            }
        }
    }
    for lit in ["<a b=\"c\">d</a>", "<a><a></a></a>", "<a><b><c/></b><b/></a>", "<?xml version=\"1.0\"?><!DOCTYPE a><a xmlns:x=\"u\" x:y=\"1\"><x:b>t</x:b><![CDATA[z]]></a>"] {
        for h in [[0u8, 0, 0], [3, 7, 1], [2, 2, 0]] {
            let mut v = h.to_vec();
            v.extend_from_slice(lit.as_bytes());
            out.push(v);
        }
    }
    out
}

fn big_oracle(_docs: &[&crate::model::Node], bytes: &[Vec<u8>]) -> Result<bool, String> {
    let opts = OptSpec { prefix: "@".into(), text_id: "$text".into(), derive: "Serialize, Deserialize".into(), by_name: false };
    for cfg in [ReaderCfg::default_slice(), ReaderCfg { kind: crate::sut::ReaderKind::Chunk(3), expand_empty: true, trim_text: true, check_end_names: false }] {
        run_history(bytes, &cfg, &opts, None)?;
    }
    Ok(true)
}

impl Property for C07 {
    fn id(&self) -> &'static str {
        "C07"
    }
    fn tape_sizes(&self) -> (usize, usize, usize) {
        (300, 200, 140)
    }
    fn cases(&self, tier: Tier) -> u64 {
        match tier {
            Tier::Quick => 200_000,
            Tier::Thorough => 16_000_000,
        }
    }
    fn stack_mib(&self) -> usize {
        // main-thread equivalent
        8
    }
    fn check(&self, tapes: &Tapes, st: &mut Stats) -> Result<(), Failure> {
        let (case, cfg, opts) = decode(tapes);
        st.count(&format!("gen.{}", case.kind));
        st.count(match cfg.kind {
            ReaderKind::Slice => "reader.slice",
            ReaderKind::Buf(_) => "reader.bufreader",
            ReaderKind::Chunk(_) => "reader.chunked",
        });
        if cfg.trim_text {
            st.count("cfg.trim_text");
        }
        if cfg.expand_empty {
            st.count("cfg.expand_empty_elements");
        }
        if !cfg.check_end_names {
            st.count("cfg.check_end_names=false");
        }
        for input in &case.inputs {
            let (exp, _) = crate::verdict::expected(input);
            if exp.events() >= 3 {
                st.nontrivial(hash_of(&(input, format!("{:?}", cfg))));
            }
        }
        st.sample(|| json!({"inputs": case.inputs.iter().map(|b| show(b)).collect::<Vec<_>>(), "reader": format!("{:?}", cfg), "options": opts.json()}));
        run_history(&case.inputs, &cfg, &opts, Some(st)).map_err(|e| {
            Failure::new(e).with_detail(json!({
                "inputs": case.inputs.iter().map(|b| show(b)).collect::<Vec<_>>(),
                "inputs_hex": case.inputs.iter().map(|b| crate::runner::hex(b)).collect::<Vec<_>>(),
                "reader": format!("{:?}", cfg),
                "options": opts.json(),
            }))
        })
    }
    fn extra(&self, tier: Tier, seed: u64, st: &mut Stats) -> Result<(), (Failure, Value)> {
        if tier == Tier::Thorough {
            let runs = std::env::var("XSGV_FUZZ_RUNS").ok().and_then(|s| s.parse().ok()).unwrap_or(120_000u64);
            let c = crate::fuzzrun::Campaign { target: "fz_bytes", runs_per_worker: runs, workers: 16, seed, max_len: 4096, seeds: fuzz_seeds(seed) };
            crate::fuzzrun::campaign_for("C07", &c, st)?;
        }
        // families beyond the small scope (sizes around plausible limits: windows, inline capacities, two-digit suffixes)
        {
            let (n, fail) = super::smallscope::run_big_families(big_oracle);
            st.evaluations += n;
            st.nontrivial_enumerated += n;
            st.add("big_families", n);
            if let Some((label, e, docs)) = fail {
                let first = e.lines().next().unwrap_or("").to_string();
                return Err((Failure::new(format!("family `{}`: {}", label, first)).with_detail(json!({"documents": docs, "message": e})), json!({"big_family": label})));
            }
        }
        // small-scope exhaustive histories: every pair parse(I1), extend(I2) over inputs of up to 3 top-level
        // fragments from a 9-fragment alphabet (820 inputs, 672 400 pairs), default reader and 1-byte chunks
        {
            let inputs = crate::bytesgen::fragment_inputs(9, 3);
            let n = inputs.len();
            let opts = OptSpec { prefix: "@".into(), text_id: "$text".into(), derive: "Serialize, Deserialize".into(), by_name: false };
            let results: Vec<(u64, Option<(String, Vec<u8>, Vec<u8>)>)> = std::thread::scope(|s| {
                let hs: Vec<_> = (0..16usize)
                    .map(|w| {
                        let inputs = &inputs;
                        let opts = &opts;
                        s.spawn(move || {
                            let mut evals = 0u64;
                            for i in (w..n).step_by(16) {
                                for j in 0..n {
                                    let cfg = if (i + j) % 7 == 0 {
                                        ReaderCfg { kind: ReaderKind::Chunk(1), expand_empty: (i + j) % 2 == 0, trim_text: false, check_end_names: true }
                                    } else {
                                        ReaderCfg::default_slice()
                                    };
                                    evals += 1;
                                    if let Err(e) = run_history(&[inputs[i].clone(), inputs[j].clone()], &cfg, opts, None) {
                                        return (evals, Some((e, inputs[i].clone(), inputs[j].clone())));
                                    }
                                }
                            }
                            (evals, None)
                        })
                    })
                    .collect();
                hs.into_iter().map(|h| h.join().expect("join")).collect()
            });
            for (e, f) in results {
                st.evaluations += e;
                st.add("exhaustive.fragment_histories", e);
                st.nontrivial_enumerated += e;
                if let Some((msg, a, b)) = f {
                    return Err((
                        Failure::new(format!("small-scope history parse({:?}), extend({:?}): {}", String::from_utf8_lossy(&a), String::from_utf8_lossy(&b), msg)),
                        json!({"history_hex": [crate::runner::hex(&a), crate::runner::hex(&b)]}),
                    ));
                }
            }
        }
        // regression corpus: every file through every chunk size and flag combination
        let dir = crate::runner::verif_root().join("corpus").join("bytes");
        let mut files: Vec<std::path::PathBuf> = match std::fs::read_dir(&dir) {
            Ok(rd) => rd.filter_map(|e| e.ok()).map(|e| e.path()).filter(|p| p.is_file()).collect(),
            Err(_) => vec![],
        };
        files.sort();
        let opts = OptSpec { prefix: "@".into(), text_id: "$text".into(), derive: "Serialize, Deserialize".into(), by_name: false };
        for f in &files {
            let data = match std::fs::read(f) {
                Ok(d) => d,
                Err(_) => continue,
            };
            for kind in [ReaderKind::Slice, ReaderKind::Chunk(1), ReaderKind::Chunk(3), ReaderKind::Buf(7), ReaderKind::Chunk(4096)] {
                for flags in 0..8u8 {
                    let cfg = ReaderCfg { kind, expand_empty: flags & 1 != 0, trim_text: flags & 2 != 0, check_end_names: flags & 4 == 0 };
                    st.evaluations += 1;
                    st.count("corpus.runs");
                    crate::crashguard::begin_case(&[], &[], &[], false);
                    let r = run_history(&[data.clone(), data.clone()], &cfg, &opts, Some(st));
                    crate::crashguard::end_case();
                    if let Err(e) = r {
                        return Err((Failure::new(format!("corpus file {}: {}", f.display(), e)), json!({"corpus_file": f.display().to_string(), "reader": format!("{:?}", cfg)})));
                    }
                }
            }
        }
        st.add("corpus.files", files.len() as u64);
        Ok(())
    }
    fn replay_custom(&self, payload: &Value) -> Result<(), Failure> {
        if let Some(l) = payload["big_family"].as_str() {
            return super::smallscope::replay_big_family(l, big_oracle).map_err(Failure::new);
        }
        if payload["fuzz_target"].is_string() {
            let input = crate::runner::unhex(payload["input_hex"].as_str().unwrap_or(""));
            crate::crashguard::begin_case(&input, &[], &[], false);
            // only C07's part of the target: the C08 oracle is replayed under C08
            let (cfg, opts, twice, body) = crate::fuzzglue::decode_bytes_input(&input);
            if nesting_depth(body, cfg.expand_empty, cfg.check_end_names) > MAX_DEPTH || nesting_depth(body, false, true) > MAX_DEPTH {
                return Ok(());
            }
            let inputs: Vec<Vec<u8>> = if twice { vec![body.to_vec(), body.to_vec()] } else { vec![body.to_vec()] };
            return run_history(&inputs, &cfg, &opts, None).map_err(Failure::new);
        }
        if let Some(h) = payload["history_hex"].as_array() {
            let inputs: Vec<Vec<u8>> = h.iter().map(|x| crate::runner::unhex(x.as_str().unwrap_or(""))).collect();
            let opts = OptSpec { prefix: "@".into(), text_id: "$text".into(), derive: "Serialize, Deserialize".into(), by_name: false };
            for cfg in [ReaderCfg::default_slice(), ReaderCfg { kind: ReaderKind::Chunk(1), expand_empty: true, trim_text: false, check_end_names: true }, ReaderCfg { kind: ReaderKind::Chunk(1), expand_empty: false, trim_text: false, check_end_names: true }] {
                run_history(&inputs, &cfg, &opts, None).map_err(Failure::new)?;
            }
            return Ok(());
        }
        let f = payload["corpus_file"].as_str().unwrap_or("");
        let data = std::fs::read(f).map_err(|e| Failure::new(format!("cannot read {}: {}", f, e)).with_signature("infrastructure"))?;
        let opts = OptSpec { prefix: "@".into(), text_id: "$text".into(), derive: "Serialize, Deserialize".into(), by_name: false };
        for kind in [ReaderKind::Slice, ReaderKind::Chunk(1), ReaderKind::Chunk(3), ReaderKind::Buf(7), ReaderKind::Chunk(4096)] {
            for flags in 0..8u8 {
                let cfg = ReaderCfg { kind, expand_empty: flags & 1 != 0, trim_text: flags & 2 != 0, check_end_names: flags & 4 == 0 };
                run_history(&[data.clone(), data.clone()], &cfg, &opts, None).map_err(Failure::new)?;
            }
        }
        Ok(())
    }
    fn rule(&self) -> String {
        "byte strings decoded from tapes (byte-level mutations of generated valid documents with an XML token dictionary, raw bytes, nesting chains up to depth 260, tiny fragments, multi-root fragment sequences, one parent with 21..80 combinatorially named children and up to 40 attributes) fed as into_struct(B1), extend_struct(B2), ... through &[u8], BufReader capacities 1..8192 and a chunked BufRead (1,2,3,7,64,4096 bytes per fill), with trim_text / expand_empty_elements / check_end_names in all combinations; every Ok result is rendered with generated options under both sort orders. Oracle: every call returns (catch_unwind); a supervising process turns a crash signal (stack overflow, abort) or a case running longer than 20 s into a violation with the offending tapes. Inputs nested deeper than 200 (by an independent pass over the reader events) are outside the statement and skipped (counted). Non-trivial = the default reader emits three or more events for the input; distinct by hash of input bytes and reader configuration. Small-scope exhaustive part: all 672 400 histories parse(I1), extend(I2) over inputs of up to three top-level fragments from nine (multi-root inputs included). The committed regression corpus (/verif/corpus/bytes) is replayed through 5 readers x 8 flag combinations.".into()
    }
    fn assumptions(&self) -> Vec<String> {
        vec![
            "worker threads have 8 MiB stacks (main-thread equivalent); release build with overflow checks and debug assertions on".into(),
            "termination is bounded by a 20 s per-case watchdog, not proved".into(),
            "inputs are at most ~6 KB".into(),
        ]
    }
    fn describe(&self, tapes: &Tapes) -> Value {
        let (case, cfg, opts) = decode(tapes);
        json!({"inputs": case.inputs.iter().map(|b| show(b)).collect::<Vec<_>>(), "inputs_hex": case.inputs.iter().map(|b| crate::runner::hex(b)).collect::<Vec<_>>(), "reader": format!("{:?}", cfg), "options": opts.json(), "generator": case.kind})
    }
    fn health(&self, _tier: Tier) -> Vec<(&'static str, u64)> {
        vec![
            ("nontrivial", 50000),
            ("result.ok", 10000),
            ("result.err_reader", 5000),
            ("result.err_other", 1500),
            ("depth.100..200", 500),
            ("reader.chunked", 10000),
            ("cfg.trim_text", 10000),
            ("cfg.check_end_names=false", 10000),
            ("gen.fragments", 5000),
            ("gen.many_named_children", 5000),
            ("exhaustive.fragment_histories", 600000),
        ]
    }
}
