//! Choice tape: every random decision of a generated case is read from a byte vector.
//! An exhausted tape yields 0 = "simplest choice", so decoding always terminates and
//! proptest's Vec<u8> shrinking (drop bytes, lower bytes) shrinks the decoded case.

#[derive(Clone)]
pub struct Tape<'a> {
    data: &'a [u8],
    pos: usize,
}

impl<'a> Tape<'a> {
    pub fn new(data: &'a [u8]) -> Self {
        Tape { data, pos: 0 }
    }
    pub fn byte(&mut self) -> u8 {
        let b = self.data.get(self.pos).copied().unwrap_or(0);
        self.pos = self.pos.saturating_add(1);
        b
    }
    pub fn exhausted(&self) -> bool {
        self.pos >= self.data.len()
    }
    pub fn consumed(&self) -> usize {
        self.pos.min(self.data.len())
    }
    /// monotone map of one byte onto 0..n (n <= 256)
    pub fn choose(&mut self, n: usize) -> usize {
        if n <= 1 {
            return 0;
        }
        if n <= 256 {
            (self.byte() as usize * n) >> 8
        } else {
            let v = ((self.byte() as usize) << 8) | self.byte() as usize;
            (v * n) >> 16
        }
    }
    /// true with probability num/256; an exhausted tape gives false
    pub fn chance(&mut self, num: u16) -> bool {
        (self.byte() as u16) + num >= 256 && num > 0
    }
    /// weighted choice; index 0 is the "simplest"
    pub fn weighted(&mut self, weights: &[u32]) -> usize {
        let total: u32 = weights.iter().sum();
        if total == 0 {
            return 0;
        }
        let v = ((self.byte() as u32) * total) >> 8;
        let mut acc = 0;
        for (i, w) in weights.iter().enumerate() {
            acc += w;
            if v < acc {
                return i;
            }
        }
        weights.len() - 1
    }
    pub fn pick<'b, T>(&mut self, items: &'b [T]) -> &'b T {
        &items[self.choose(items.len())]
    }
    /// rest of the tape (for byte-level payloads)
    pub fn rest(&mut self) -> &'a [u8] {
        let r = if self.pos < self.data.len() { &self.data[self.pos..] } else { &[] };
        self.pos = self.data.len();
        r
    }
}
