//! Document model and tape decoder (DESIGN.md §3.1).
//!
//! A case is a sequence of documents sharing a root name. The *structure* (names, attribute
//! sets, nesting, repetition, presence and blankness of character data) lives here; everything
//! incidental (quotes, values, CDATA vs text, comments, PIs, prolog, `<x/>` vs `<x></x>`) is
//! chosen by the serializer from a second, independent tape (see xmlser.rs).

use crate::tape::Tape;
use serde::Serialize;

#[derive(Clone, Debug, Serialize, PartialEq, Eq, Hash)]
pub enum Item {
    /// a text or CDATA node with at least one character; `blank` = whitespace only
    Chars { blank: bool },
    /// `<![CDATA[]]>`: a CDATA node without characters
    EmptyCData,
    Child(Node),
}

#[derive(Clone, Debug, Serialize, PartialEq, Eq, Hash)]
pub struct Node {
    pub name: String,
    pub attrs: Vec<String>,
    pub items: Vec<Item>,
}

impl Node {
    pub fn children(&self) -> impl Iterator<Item = &Node> {
        self.items.iter().filter_map(|i| match i {
            Item::Child(c) => Some(c),
            _ => None,
        })
    }
    pub fn has_chars(&self) -> bool {
        self.items.iter().any(|i| !matches!(i, Item::Child(_)))
    }
    pub fn has_nonblank(&self) -> bool {
        self.items.iter().any(|i| matches!(i, Item::Chars { blank: false }))
    }
    pub fn count_nodes(&self) -> usize {
        1 + self.children().map(|c| c.count_nodes()).sum::<usize>()
    }
    pub fn depth(&self) -> usize {
        // iterative to survive chains of depth 200+
        let mut max = 0;
        let mut stack = vec![(self, 1usize)];
        while let Some((n, d)) = stack.pop() {
            max = max.max(d);
            for c in n.children() {
                stack.push((c, d + 1));
            }
        }
        max
    }
}

#[derive(Clone, Debug, Serialize)]
pub struct Case {
    pub elem_pool: Vec<String>,
    pub attr_pool: Vec<String>,
    pub docs: Vec<Node>,
    pub wide: bool,
    pub rewrites: u32,
    pub amplified: bool,
    pub long_sequence: bool,
}

// ---------------------------------------------------------------------------------------
// name universe

pub struct NameClass {
    pub tag: &'static str,
    pub names: &'static [&'static str],
}

pub const ELEM_CLASSES: &[NameClass] = &[
    NameClass { tag: "plain", names: &["a", "b", "c", "d", "e", "item", "book", "title", "price", "row"] },
    NameClass { tag: "prefixed", names: &["ns:a", "x:b", "ns:item", "p:q", "x:title", "ns:c", "q:row"] },
    NameClass { tag: "multicolon", names: &["a:b:c", "x:y:z"] },
    NameClass {
        tag: "keyword",
        names: &[
            "type", "Type", "TYPE", "self", "Self", "crate", "loop", "Loop", "try", "async", "dyn", "match", "fn",
            "struct", "super", "true", "mod", "use", "where", "yield", "abstract", "box", "ns:type", "x:self",
            // keywords behind / in front of separators (a clean-up of leading or trailing underscores must not expose them)
            "_type", "_self", "__ref", "type_", "_loop_", "_Type",
        ],
    },
    NameClass { tag: "case", names: &["Foo", "foo", "FOO", "fOO", "Bar", "bar", "BAR"] },
    NameClass {
        tag: "separator",
        names: &["a-b", "a.b", "a_b", "AB", "a__b", "_a", "a_", "Ab", "aB", "A-B", "a-B", "a.b.c", "a-b-c", "abC"],
    },
    NameClass {
        tag: "concat",
        names: &["Total", "Price", "TotalPrice", "total_price", "Total-Price", "total", "A", "BC", "AB", "C", "ABC", "a", "b", "ab", "bc", "abc", "c", "aa"],
    },
    NameClass {
        tag: "std",
        names: &[
            "String", "string", "Option", "option", "Vec", "vec", "Serialize", "Deserialize", "serialize", "deserialize",
            "Box", "Result", "Some", "None", "str", "u8", "bool", "Default", "Clone", "Debug",
            // the long s upper-cases to an ASCII `S`
            "ſtring", "ſelf", "ſerialize",
        ],
    },
    NameClass {
        tag: "trap",
        names: &["text", "text_content", "foo_1", "type_attr", "r_type", "text_1", "a_attr", "foo_attr", "Text", "a_1", "a_type", "foo_2", "foo-2", "foo.1", "a_2", "text_content_1", "foo_3", "a_3"],
    },
    NameClass { tag: "nonascii", names: &["é", "Ж", "жж", "λ", "名", "ñu", "Éa", "жЖ", "名前", "über", "ab名前", "é名前", "Идентификатор", "КАТАЛОГ", "ТОВАР", "AÑo", "ÉCOLE", "ÜBER", "col·lecció", "cafe\u{301}", "e\u{301}", "a\u{203F}b", "x\u{200D}y", "क\u{94D}ष", "núm·ref", "\u{20AC}uro", "ısı", "ışık", "ŉa", "ǰa", "ɐb", "straße", "ǆak", "İstanbul", "𐐷𐑊", "ΟΔΟΣ", "ﬁx", "𝒜b", "𠀀x", "éab", "éz"] },
    NameClass { tag: "digit", names: &["a1", "a2b", "x10", "A1", "b2", "a1b2", "h1", "H1", "S3Bucket", "H264Settings", "MP3Player", "H1N1", "item2Name", "base64Data", "ITEM2NAME", "x1Y"] },
    NameClass {
        tag: "long",
        names: &[
            "averyveryveryverylongelementnamethatgoesonandonandonandonandonandonX1",
            "averyveryveryverylongelementnamethatgoesonandonandonandonandonandonX2",
            "длинноеимяэлементакотороепродолжаетсяипродолжаетсяипродолжается",
            "long-name-with-many-parts-and-separators.that-exceeds.sixty-four_bytes_easily",
            // beyond 128, 255 and 1024 bytes (length bytes, inline buffers, fixed-size caches)
            "n130_abcdefghijabcdefghijabcdefghijabcdefghijabcdefghijabcdefghijabcdefghijabcdefghijabcdefghijabcdefghijabcdefghijabcdefghijabcdefghij",
            "L260x1y2z3w4v5x1y2z3w4v5x1y2z3w4v5x1y2z3w4v5x1y2z3w4v5x1y2z3w4v5x1y2z3w4v5x1y2z3w4v5x1y2z3w4v5x1y2z3w4v5x1y2z3w4v5x1y2z3w4v5x1y2z3w4v5x1y2z3w4v5x1y2z3w4v5x1y2z3w4v5x1y2z3w4v5x1y2z3w4v5x1y2z3w4v5x1y2z3w4v5x1y2z3w4v5x1y2z3w4v5x1y2z3w4v5x1y2z3w4v5x1y2z3w4v5x1y2z3w4v5End",
            "éééééééééééééééééééééééééééééééééééééééééééééééééééééééééééééééééééééééééééééééééééééééééééééééééééééééééééééééééééééééééééééééééééééééééééééééééééééé",
            "k01234567890123456789012345678901234567890123456789012345678901234567890123456789012345678901234567890123456789012345678901234567890123456789012345678901234567890123456789012345678901234567890123456789012345678901234567890123456789012345678901234567890123456789012345678901234567890123456789012345678901234567890123456789012345678901234567890123456789012345678901234567890123456789012345678901234567890123456789012345678901234567890123456789012345678901234567890123456789012345678901234567890123456789012345678901234567890123456789012345678901234567890123456789012345678901234567890123456789012345678901234567890123456789012345678901234567890123456789012345678901234567890123456789012345678901234567890123456789012345678901234567890123456789012345678901234567890123456789012345678901234567890123456789012345678901234567890123456789012345678901234567890123456789012345678901234567890123456789012345678901234567890123456789012345678901234567890123456789012345678901234567890123456789012345678901234567890123456789012345678901234567890123456789012345678901234567890123456789012345678901234567890123456789",
        ],
    },
];

pub const ATTR_CLASSES: &[NameClass] = &[
    NameClass { tag: "plain", names: &["a", "b", "id", "name", "c", "lang", "x", "y", "z", "k", "ab", "ba", "abc", "ref", "idref"] },
    NameClass { tag: "prefixed", names: &["ns:a", "x:id", "xsi:type", "xml:lang", "p:q", "ns:name", "x:y", "xmlñs:a", "xsi:nil", "xml:space", "xsi:nil"] },
    NameClass { tag: "multicolon", names: &["a:b:c"] },
    NameClass { tag: "xmlns", names: &["xmlns", "xmlns:ns", "xmlns:x", "xmlns:xsi", "xmlns:p"] },
    NameClass {
        tag: "keyword",
        names: &["type", "Type", "self", "Self", "crate", "loop", "try", "async", "ref", "in", "for", "match", "move", "x:type", "_type", "_ref", "__self", "type_"],
    },
    NameClass { tag: "case", names: &["Foo", "foo", "FOO", "Bar", "bar"] },
    NameClass { tag: "separator", names: &["a-b", "a.b", "a_b", "AB", "a__b", "_a", "a_", "aB", "data-id", "data.id"] },
    NameClass { tag: "concat", names: &["Total", "Price", "TotalPrice", "total_price"] },
    NameClass { tag: "std", names: &["String", "string", "Option", "Vec"] },
    NameClass {
        tag: "trap",
        names: &["text", "text_content", "foo_1", "type_attr", "r_type", "a_attr", "foo_attr", "text_attr", "a_1", "a_attr_1", "b_attr", "foo_2", "foo_attr_1", "foo_attr_2", "a_2", "foo_3", "foo_attr_3"],
    },
    NameClass { tag: "nonascii", names: &["é", "Ж", "λ", "名", "ñu", "über", "ab名前", "é名前", "Идентификатор", "codi·intern", "nu\u{303}m", "k\u{2040}k", "i\u{200D}d", "\u{20AC}x", "ı", "ŉa", "größe", "ǅ", "𐐏", "ς", "ﬀ", "éab", "éz"] },
    NameClass { tag: "digit", names: &["a1", "x10", "A1", "b2"] },
    NameClass {
        tag: "long",
        names: &[
            "averyveryveryverylongattributenamethatgoesonandonandonandonandonandonX1",
            "averyveryveryverylongattributenamethatgoesonandonandonandonandonandonX2",
            "оченьдлинноеимяатрибутакотороепродолжаетсяипродолжается",
            "a130_abcdefghijabcdefghijabcdefghijabcdefghijabcdefghijabcdefghijabcdefghijabcdefghijabcdefghijabcdefghijabcdefghijabcdefghijabcdefghij",
            "A260x1y2z3w4v5x1y2z3w4v5x1y2z3w4v5x1y2z3w4v5x1y2z3w4v5x1y2z3w4v5x1y2z3w4v5x1y2z3w4v5x1y2z3w4v5x1y2z3w4v5x1y2z3w4v5x1y2z3w4v5x1y2z3w4v5x1y2z3w4v5x1y2z3w4v5x1y2z3w4v5x1y2z3w4v5x1y2z3w4v5x1y2z3w4v5x1y2z3w4v5x1y2z3w4v5x1y2z3w4v5x1y2z3w4v5x1y2z3w4v5x1y2z3w4v5x1y2z3w4v5",
            "q98765432109876543210987654321098765432109876543210987654321098765432109876543210987654321098765432109876543210987654321098765432109876543210987654321098765432109876543210987654321098765432109876543210987654321098765432109876543210987654321098765432109876543210987654321098765432109876543210987654321098765432109876543210987654321098765432109876543210987654321098765432109876543210987654321098765432109876543210987654321098765432109876543210987654321098765432109876543210987654321098765432109876543210987654321098765432109876543210987654321098765432109876543210987654321098765432109876543210987654321098765432109876543210987654321098765432109876543210987654321098765432109876543210987654321098765432109876543210987654321098765432109876543210987654321098765432109876543210987654321098765432109876543210987654321098765432109876543210987654321098765432109876543210987654321098765432109876543210987654321098765432109876543210987654321098765432109876543210987654321098765432109876543210987654321098765432109876543210987654321098765432109876543210987654321098765432109876543210987654321098765432109876543210",
        ],
    },
];

pub fn local_of(name: &str) -> &str {
    match name.find(':') {
        Some(i) => &name[i + 1..],
        None => name,
    }
}

pub fn is_xmlns_attr(name: &str) -> bool {
    name.starts_with("xmlns:")
}

/// the serde key an attribute is expected to be bound to (without the attribute prefix)
pub fn attr_bound_local(name: &str) -> &str {
    if is_xmlns_attr(name) {
        name
    } else {
        local_of(name)
    }
}

// ---------------------------------------------------------------------------------------
// domain configuration

#[derive(Clone, Debug)]
pub struct Domain {
    /// allowed classes with weights (element names)
    pub elem_classes: Vec<(&'static str, u32)>,
    pub attr_classes: Vec<(&'static str, u32)>,
    /// pool never holds two element names (or two attribute names) equal after prefix removal
    pub no_prefix_clash: bool,
    /// every occurrence is text-bearing xor child-bearing (blank text may sit between children)
    pub data_oriented: bool,
    /// stricter: child-bearing occurrences carry no character data at all, text-bearing no children
    pub no_mixed_at_all: bool,
    /// repeated children are emitted adjacent
    pub adjacent_repeats: bool,
    /// attribute pool disjoint from element pool (compared on names)
    pub attr_child_disjoint: bool,
    /// a name is either a text leaf (no attrs/children anywhere) or structural (no nonblank text)
    pub split_leaf_struct: bool,
    pub max_docs: usize,
    pub max_depth: usize,
    pub max_nodes: usize,
    pub allow_wide: bool,
    /// probability/256 that a document is a deep chain (depth up to `chain_max`)
    pub chain_chance: u16,
    pub chain_max: usize,
    pub min_pool: usize,
    pub max_pool: usize,
    /// no ':' in any name and no xmlns attribute
    pub ns_free: bool,
    /// probability/256 that one child of one document is amplified to up to 300 occurrences
    pub amplify_chance: u16,
    /// probability/256 of a long sequence (up to 12 small documents)
    pub long_sequence_chance: u16,
}

pub const ALL_CLASSES: &[(&str, u32)] = &[
    ("plain", 6),
    ("prefixed", 3),
    ("multicolon", 1),
    ("keyword", 3),
    ("case", 3),
    ("separator", 3),
    ("concat", 2),
    ("std", 2),
    ("trap", 2),
    ("nonascii", 2),
    ("digit", 1),
    ("long", 1),
];
pub const ALL_ATTR_CLASSES: &[(&str, u32)] = &[
    ("plain", 6),
    ("prefixed", 3),
    ("multicolon", 1),
    ("xmlns", 2),
    ("keyword", 3),
    ("case", 2),
    ("separator", 3),
    ("concat", 1),
    ("std", 1),
    ("trap", 3),
    ("nonascii", 2),
    ("digit", 1),
    ("long", 1),
];

impl Domain {
    pub fn general() -> Domain {
        Domain {
            elem_classes: ALL_CLASSES.to_vec(),
            attr_classes: ALL_ATTR_CLASSES.to_vec(),
            no_prefix_clash: true,
            data_oriented: false,
            no_mixed_at_all: false,
            adjacent_repeats: false,
            attr_child_disjoint: false,
            split_leaf_struct: false,
            max_docs: 5,
            max_depth: 6,
            max_nodes: 40,
            allow_wide: true,
            chain_chance: 0,
            chain_max: 0,
            min_pool: 2,
            max_pool: 6,
            ns_free: false,
            amplify_chance: 12,
            long_sequence_chance: 10,
        }
    }
    /// benign alphabet: plain names only
    pub fn plain() -> Domain {
        let mut d = Domain::general();
        d.elem_classes = vec![("plain", 1)];
        d.attr_classes = vec![("plain", 1)];
        d
    }
    /// the domain of the first phase of a run: same names and restrictions, none of the size-amplifying modes
    pub fn small(&self) -> Domain {
        let mut d = self.clone();
        d.allow_wide = false;
        d.chain_chance = 0;
        d.amplify_chance = 0;
        d.long_sequence_chance = 0;
        d.max_nodes = d.max_nodes.min(12);
        d.max_depth = d.max_depth.min(4);
        d.max_docs = d.max_docs.min(3);
        d
    }
    pub fn without_classes(mut self, tags: &[&str]) -> Domain {
        self.elem_classes.retain(|(t, _)| !tags.contains(t));
        self.attr_classes.retain(|(t, _)| !tags.contains(t));
        self
    }
}

// ---------------------------------------------------------------------------------------
// decoder

fn class_names(classes: &'static [NameClass], tag: &str) -> &'static [&'static str] {
    classes.iter().find(|c| c.tag == tag).map(|c| c.names).unwrap_or(&[])
}

fn pick_pool(
    t: &mut Tape,
    classes: &'static [NameClass],
    allowed: &[(&'static str, u32)],
    n: usize,
    no_prefix_clash: bool,
    forbidden: &[String],
    ns_keep_xmlns: bool,
    ns_free: bool,
) -> Vec<String> {
    let mut pool: Vec<String> = Vec::new();
    if allowed.is_empty() {
        return pool;
    }
    let weights: Vec<u32> = allowed.iter().map(|(_, w)| *w).collect();
    // a case concentrates on one or two classes so that collisions inside a class are frequent
    let focus_a = t.weighted(&weights);
    let focus_b = t.weighted(&weights);
    let mut attempts = 0;
    while pool.len() < n && attempts < n * 6 {
        attempts += 1;
        let ci = match t.choose(4) {
            0 | 1 => focus_a,
            2 => focus_b,
            _ => t.weighted(&weights),
        };
        let names = class_names(classes, allowed[ci].0);
        if names.is_empty() {
            continue;
        }
        let cand = t.pick(names).to_string();
        if pool.contains(&cand) || forbidden.contains(&cand) {
            continue;
        }
        if ns_free && (cand.contains(':') || cand == "xmlns") {
            continue;
        }
        if no_prefix_clash {
            let key = |s: &str| -> String {
                if ns_keep_xmlns && is_xmlns_attr(s) {
                    s.to_string()
                } else {
                    local_of(s).to_string()
                }
            };
            let k = key(&cand);
            if pool.iter().any(|p| key(p) == k) {
                continue;
            }
        }
        pool.push(cand);
    }
    if pool.is_empty() {
        // deterministic fallback: first admissible name of the first allowed class
        for (tag, _) in allowed {
            for nm in class_names(classes, tag) {
                if !forbidden.contains(&nm.to_string()) && !(ns_free && (nm.contains(':') || *nm == "xmlns")) {
                    pool.push(nm.to_string());
                    return pool;
                }
            }
        }
    }
    pool
}

struct Ctx<'d> {
    dom: &'d Domain,
    elems: Vec<String>,
    attrs: Vec<String>,
    /// for split_leaf_struct: per element-pool index, true = text leaf
    leaf: Vec<bool>,
    wide: bool,
    rewrites: u32,
}

fn pick_attrs(t: &mut Tape, cx: &Ctx) -> Vec<String> {
    if cx.attrs.is_empty() {
        return vec![];
    }
    let maxn = if cx.wide { cx.attrs.len() } else { cx.attrs.len().min(4) };
    // 0 attributes is the simplest choice; otherwise up to maxn distinct names in random order
    let n = if cx.wide {
        t.choose(maxn + 1)
    } else {
        let w: Vec<u32> = (0..=maxn).map(|i| if i == 0 { 5 } else { (6 - i as u32).max(1) }).collect();
        t.weighted(&w)
    };
    let mut remaining: Vec<&String> = cx.attrs.iter().collect();
    let mut out = Vec::new();
    for _ in 0..n {
        if remaining.is_empty() {
            break;
        }
        let i = t.choose(remaining.len());
        out.push(remaining.remove(i).clone());
    }
    out
}

fn gen_node(t: &mut Tape, cx: &mut Ctx, name_idx: usize, depth: usize, budget: &mut usize) -> Node {
    let name = cx.elems[name_idx].clone();
    let is_leaf_name = cx.dom.split_leaf_struct && cx.leaf[name_idx];
    let attrs = if is_leaf_name { vec![] } else { pick_attrs(t, cx) };
    let mut items = Vec::new();
    let can_nest = depth < cx.dom.max_depth && *budget > 0 && !is_leaf_name;

    // body kind: 0 empty, 1 children(+maybe chars), 2 chars only
    let kind = if !can_nest {
        if t.chance(140) {
            2
        } else {
            0
        }
    } else {
        t.weighted(&[2, 6, 3])
    };
    match kind {
        0 => {}
        2 => {
            if cx.dom.split_leaf_struct && !is_leaf_name {
                // structural names never carry non-blank text
                match t.choose(2) {
                    0 => {}
                    _ => items.push(Item::Chars { blank: true }),
                }
            } else {
                let n = 1 + t.weighted(&[8, 2, 1]);
                for _ in 0..n {
                    items.push(match t.weighted(&[8, 2, 1]) {
                        0 => Item::Chars { blank: false },
                        1 => Item::Chars { blank: true },
                        _ => Item::EmptyCData,
                    });
                }
            }
        }
        _ => {
            let maxc = if cx.wide { (cx.elems.len() + 8).max(24) } else { 6 };
            let n = 1 + t.choose(maxc);
            let mixed_ok = !cx.dom.data_oriented && !cx.dom.split_leaf_struct;
            for _ in 0..n {
                // interleaved character data
                match t.weighted(&[10, 3, 2, 1]) {
                    0 => {}
                    1 => {
                        if !cx.dom.no_mixed_at_all {
                            items.push(Item::Chars { blank: true })
                        }
                    }
                    2 => {
                        if mixed_ok {
                            items.push(Item::Chars { blank: false })
                        }
                    }
                    _ => {
                        if mixed_ok {
                            items.push(Item::EmptyCData)
                        }
                    }
                }
                if *budget == 0 {
                    break;
                }
                *budget -= 1;
                let ci = t.choose(cx.elems.len());
                items.push(Item::Child(gen_node(t, cx, ci, depth + 1, budget)));
            }
            if !cx.dom.no_mixed_at_all && t.chance(40) {
                items.push(Item::Chars { blank: true });
            }
        }
    }
    let mut node = Node { name, attrs, items };
    if cx.dom.adjacent_repeats {
        if group_adjacent(&mut node) {
            cx.rewrites += 1;
        }
    }
    node
}

/// stable grouping of child elements by name (first-appearance order); returns true if changed
fn group_adjacent(node: &mut Node) -> bool {
    let mut order: Vec<String> = Vec::new();
    for c in node.children() {
        if !order.contains(&c.name) {
            order.push(c.name.clone());
        }
    }
    // already adjacent?
    let seq: Vec<&str> = node.children().map(|c| c.name.as_str()).collect();
    let mut seen: Vec<&str> = Vec::new();
    let mut adjacent = true;
    for (i, s) in seq.iter().enumerate() {
        if i > 0 && seq[i - 1] == *s {
            continue;
        }
        if seen.contains(s) {
            adjacent = false;
            break;
        }
        seen.push(s);
    }
    if adjacent {
        return false;
    }
    let old = std::mem::take(&mut node.items);
    let mut non_children: Vec<Item> = Vec::new();
    let mut buckets: Vec<Vec<Item>> = order.iter().map(|_| Vec::new()).collect();
    for it in old {
        match &it {
            Item::Child(c) => {
                let i = order.iter().position(|n| *n == c.name).unwrap();
                buckets[i].push(it);
            }
            _ => non_children.push(it),
        }
    }
    // character data first (blank in the domains that use this), then grouped children
    node.items = non_children;
    for b in buckets {
        node.items.extend(b);
    }
    true
}

fn gen_chain(t: &mut Tape, cx: &mut Ctx, root_idx: usize) -> Node {
    let depth = 2 + t.choose(cx.dom.chain_max.saturating_sub(1).max(1));
    // bottom subtree
    let mut budget = 6usize;
    let saved_depth = cx.dom.max_depth;
    let bottom_idx = t.choose(cx.elems.len());
    // build bottom with a tiny local depth limit
    let dom2 = Domain { max_depth: 2, ..cx.dom.clone() };
    let mut cx2 = Ctx { dom: &dom2, elems: cx.elems.clone(), attrs: cx.attrs.clone(), leaf: cx.leaf.clone(), wide: false, rewrites: 0 };
    let mut cur = gen_node(t, &mut cx2, bottom_idx, 1, &mut budget);
    let _ = saved_depth;
    // same-name chains and alternating chains are the interesting ones for naming
    let pattern = t.choose(3);
    for level in (1..depth).rev() {
        let idx = if level == 1 {
            root_idx
        } else {
            match pattern {
                0 => root_idx,
                1 => level % cx.elems.len(),
                _ => t.choose(cx.elems.len()),
            }
        };
        let mut items = vec![Item::Child(cur)];
        if t.chance(20) && !cx.dom.no_mixed_at_all {
            items.push(Item::Chars { blank: true });
        }
        cur = Node { name: cx.elems[idx].clone(), attrs: if t.chance(30) { pick_attrs(t, cx) } else { vec![] }, items };
    }
    cur
}

/// repeat one child of one node many times (alternating with a slightly poorer variant), so that
/// occurrence counters pass 255/256 and optional decisions are taken late
fn amplify(t: &mut Tape, doc: &mut Node, adjacent: bool) -> bool {
    // walk down a random path to a node that has children
    let mut cur: &mut Node = doc;
    for _ in 0..t.choose(3) {
        let idxs: Vec<usize> = cur.items.iter().enumerate().filter(|(_, i)| matches!(i, Item::Child(c) if c.children().next().is_some())).map(|(i, _)| i).collect();
        if idxs.is_empty() {
            break;
        }
        let k = idxs[t.choose(idxs.len())];
        cur = match &mut cur.items[k] {
            Item::Child(c) => c,
            _ => unreachable!(),
        };
    }
    let idxs: Vec<usize> = cur.items.iter().enumerate().filter(|(_, i)| matches!(i, Item::Child(_))).map(|(i, _)| i).collect();
    if idxs.is_empty() {
        return false;
    }
    let k = idxs[t.choose(idxs.len())];
    let orig = match &cur.items[k] {
        Item::Child(c) => c.clone(),
        _ => unreachable!(),
    };
    if orig.count_nodes() > 6 {
        return false;
    }
    let mut variant = orig.clone();
    if !variant.attrs.is_empty() {
        variant.attrs.remove(0);
    } else if !variant.items.is_empty() {
        variant.items.remove(0);
    }
    let reps = *t.pick(&[3usize, 9, 40, 130, 255, 256, 257, 300]);
    let vary = t.chance(128);
    let mut extra: Vec<Item> = Vec::with_capacity(reps);
    for i in 0..reps {
        extra.push(Item::Child(if vary && i % 2 == 1 { variant.clone() } else { orig.clone() }));
    }
    if adjacent {
        cur.items.splice(k + 1..k + 1, extra);
    } else {
        let at = if t.chance(128) { k + 1 } else { cur.items.len() };
        cur.items.splice(at..at, extra);
    }
    true
}

pub fn decode_case(t: &mut Tape, dom: &Domain) -> Case {
    let wide = dom.allow_wide && t.chance(32);
    let (np, na) = if wide {
        // up to 16 names mostly; one wide case in four has up to 48 (sort implementations switch algorithm above 20)
        (if t.chance(64) { 17 + t.choose(32) } else { 8 + t.choose(9) }, 4 + t.choose(9))
    } else {
        (dom.min_pool + t.choose(dom.max_pool - dom.min_pool + 1), t.choose(5) + if t.chance(200) { 1 } else { 0 })
    };
    let elems = pick_pool(t, ELEM_CLASSES, &dom.elem_classes, np, dom.no_prefix_clash, &[], false, dom.ns_free);
    let forbidden: Vec<String> = if dom.attr_child_disjoint { elems.clone() } else { vec![] };
    let attrs = if na == 0 { vec![] } else { pick_pool(t, ATTR_CLASSES, &dom.attr_classes, na, dom.no_prefix_clash, &forbidden, true, dom.ns_free) };
    let attrs = if na == 0 { vec![] } else { attrs };
    let mut leaf = vec![false; elems.len()];
    if dom.split_leaf_struct {
        for (i, l) in leaf.iter_mut().enumerate() {
            // the root name (index 0) is always structural
            *l = i > 0 && t.chance(110);
        }
    }
    let mut cx = Ctx { dom, elems, attrs, leaf, wide, rewrites: 0 };
    let long_seq = dom.max_docs >= 5 && dom.long_sequence_chance > 0 && t.chance(dom.long_sequence_chance);
    let k = if long_seq { 6 + t.choose(7) } else { 1 + t.weighted(&[5, 6, 4, 2, 1][..dom.max_docs.min(5)]) };
    let root_idx = 0;
    let mut docs = Vec::new();
    for _ in 0..k {
        if dom.chain_chance > 0 && t.chance(dom.chain_chance) {
            docs.push(gen_chain(t, &mut cx, root_idx));
        } else {
            let mut budget = if wide { 60.max(cx.elems.len() * 2) } else if long_seq { 8 } else { dom.max_nodes };
            let saved;
            let d = if wide {
                saved = Domain { max_depth: 3, ..dom.clone() };
                let mut cxw = Ctx { dom: &saved, elems: cx.elems.clone(), attrs: cx.attrs.clone(), leaf: cx.leaf.clone(), wide: true, rewrites: 0 };
                let n = gen_node(t, &mut cxw, root_idx, 1, &mut budget);
                cx.rewrites += cxw.rewrites;
                n
            } else {
                gen_node(t, &mut cx, root_idx, 1, &mut budget)
            };
            docs.push(d);
        }
    }
    let mut amplified = false;
    if dom.amplify_chance > 0 && t.chance(dom.amplify_chance) {
        let i = t.choose(docs.len());
        amplified = amplify(t, &mut docs[i], dom.adjacent_repeats);
    }
    Case { elem_pool: cx.elems, attr_pool: cx.attrs, docs, wide, rewrites: cx.rewrites, amplified, long_sequence: long_seq }
}
