//! Coverage-guided campaigns (thorough tiers): builds the cargo-fuzz targets from the current tree,
//! seeds a fresh corpus, runs 16 libFuzzer workers with fixed seeds and run counts, and turns
//! artifacts into failures.

use crate::runner::{hex, verif_root, Failure, Stats};
use serde_json::{json, Value};
use std::path::PathBuf;

pub struct Campaign {
    pub target: &'static str,
    pub runs_per_worker: u64,
    pub workers: usize,
    pub seed: u64,
    pub max_len: usize,
    pub seeds: Vec<Vec<u8>>,
}

fn harness_dir() -> PathBuf {
    verif_root().join("harness")
}

fn target_bin(target: &str) -> PathBuf {
    verif_root().join("target/harness/x86_64-unknown-linux-gnu/release").join(target)
}

pub fn build(target: &str) -> Result<(), String> {
    let out = std::process::Command::new("cargo")
        .args(["+nightly", "fuzz", "build", target])
        .current_dir(harness_dir())
        .env("CARGO_NET_OFFLINE", "true")
        .output()
        .map_err(|e| format!("cannot run cargo fuzz: {}", e))?;
    if !out.status.success() {
        return Err(format!("cargo +nightly fuzz build {} failed: {}", target, String::from_utf8_lossy(&out.stderr).lines().rev().take(8).collect::<Vec<_>>().join(" | ")));
    }
    if !target_bin(target).exists() {
        return Err(format!("{} not found after build", target_bin(target).display()));
    }
    Ok(())
}

pub struct Found {
    pub kind: String,
    pub input: Vec<u8>,
}

/// returns the artifacts found (crash / timeout / oom), after running all workers to completion
pub fn run(c: &Campaign, st: &mut Stats) -> Result<Vec<Found>, String> {
    build(c.target)?;
    let dir = verif_root().join("work").join(format!("fuzz-{}-{}", c.target, std::process::id()));
    let _ = std::fs::remove_dir_all(&dir);
    let corpus = dir.join("corpus");
    let arts = dir.join("artifacts");
    std::fs::create_dir_all(&corpus).map_err(|e| e.to_string())?;
    std::fs::create_dir_all(&arts).map_err(|e| e.to_string())?;
    for (i, s) in c.seeds.iter().enumerate() {
        let _ = std::fs::write(corpus.join(format!("seed-{:04}", i)), s);
    }
    let dict = harness_dir().join("fuzz/xml.dict");
    let mut children = Vec::new();
    for w in 0..c.workers {
        let mut cmd = std::process::Command::new(target_bin(c.target));
        cmd.arg(&corpus)
            .arg(format!("-runs={}", c.runs_per_worker))
            .arg(format!("-seed={}", (c.seed.wrapping_mul(1000003).wrapping_add(w as u64 + 1)) % 4_000_000_000 + 1))
            .arg(format!("-max_len={}", c.max_len))
            .arg("-len_control=0")
            .arg("-timeout=120")
            .arg("-rss_limit_mb=4096")
            .arg("-print_final_stats=1")
            .arg(format!("-artifact_prefix={}/w{}-", arts.display(), w))
            .current_dir(&dir)
            .stdout(std::process::Stdio::null())
            // into a file, not a pipe: the workers are reaped one after the other, and a worker whose pipe is full
            // would sleep until its turn comes (which serialises the campaign)
            .stderr(std::fs::File::create(dir.join(format!("w{}.log", w))).map_err(|e| e.to_string())?);
        unsafe {
            use std::os::unix::process::CommandExt;
            cmd.pre_exec(|| {
                crate::crashguard::unlimit_memory();
                Ok(())
            });
        }
        if dict.exists() && c.target == "fz_bytes" {
            cmd.arg(format!("-dict={}", dict.display()));
        }
        children.push(cmd.spawn().map_err(|e| format!("cannot start {}: {}", c.target, e))?);
    }
    let mut total_runs = 0u64;
    let mut max_cov = 0u64;
    for (w, mut ch) in children.into_iter().enumerate() {
        ch.wait().map_err(|e| e.to_string())?;
        let raw = std::fs::read(dir.join(format!("w{}.log", w))).unwrap_or_default();
        let err = String::from_utf8_lossy(&raw);
        for l in err.lines() {
            if let Some(r) = l.strip_prefix("stat::number_of_executed_units:") {
                total_runs += r.trim().parse::<u64>().unwrap_or(0);
            }
            if let Some(i) = l.find(" cov: ") {
                if let Some(n) = l[i + 6..].split_whitespace().next().and_then(|x| x.parse::<u64>().ok()) {
                    max_cov = max_cov.max(n);
                }
            }
        }
    }
    st.add(&format!("fuzz.{}.executions", c.target), total_runs);
    st.add(&format!("fuzz.{}.coverage_edges", c.target), max_cov);
    st.add(&format!("fuzz.{}.seed_inputs", c.target), c.seeds.len() as u64);
    st.add(&format!("fuzz.{}.corpus_after", c.target), std::fs::read_dir(&corpus).map(|d| d.count() as u64).unwrap_or(0));
    st.evaluations += total_runs;
    let mut found = Vec::new();
    if let Ok(rd) = std::fs::read_dir(&arts) {
        let mut files: Vec<PathBuf> = rd.filter_map(|e| e.ok()).map(|e| e.path()).collect();
        files.sort();
        for f in files {
            let name = f.file_name().map(|n| n.to_string_lossy().to_string()).unwrap_or_default();
            let kind = if name.contains("timeout-") {
                "timeout"
            } else if name.contains("oom-") {
                "oom"
            } else {
                "crash"
            };
            if let Ok(d) = std::fs::read(&f) {
                found.push(Found { kind: kind.into(), input: d });
            }
        }
    }
    let _ = std::fs::remove_dir_all(&dir);
    Ok(found)
}

pub fn payload(target: &str, input: &[u8]) -> Value {
    json!({"fuzz_target": target, "input_hex": hex(input), "input_lossy": String::from_utf8_lossy(input)})
}

/// replay of a fuzz artifact inside this process
pub fn replay(payload: &Value) -> Option<Result<(), Failure>> {
    let target = payload["fuzz_target"].as_str()?;
    let input = crate::runner::unhex(payload["input_hex"].as_str()?);
    let r = match target {
        "fz_bytes" => crate::fuzzglue::bytes_target(&input),
        "fz_tape" => crate::fuzzglue::tape_target(&input),
        _ => return None,
    };
    Some(r.map_err(Failure::new))
}

/// run a campaign for one property: every artifact is written as a replay file and confirmed in a
/// fresh process (`xsgv <ID> --replay <file>`); the first confirmed one is returned as the failure.
pub fn campaign_for(prop_id: &str, c: &Campaign, st: &mut Stats) -> Result<(), (Failure, Value)> {
    let found = match run(c, st) {
        Ok(f) => f,
        Err(e) => {
            // nightly / cargo-fuzz unavailable: the proptest driver's larger thorough count stands alone
            st.count("fuzz.unavailable");
            eprintln!("note: libFuzzer campaign skipped: {}", e);
            return Ok(());
        }
    };
    st.add("fuzz.artifacts", found.len() as u64);
    let exe = std::env::current_exe().map_err(|e| (Failure::new(e.to_string()).with_signature("infrastructure"), Value::Null))?;
    for f in found.iter().take(40) {
        let pl = payload(c.target, &f.input);
        let fail = Failure::new(format!("libFuzzer {} artifact of target {}", f.kind, c.target));
        let path = crate::runner::write_replay(prop_id, &fail, &json!({"kind": "custom", "payload": pl}));
        // replay in a fresh process; a replay that does not finish is tried once more with a generous limit, so that a
        // stall of the machine (the campaign itself saturates all cores) is not taken for non-termination
        let mut status = None;
        let mut out = String::new();
        for limit in [40u64, 240] {
            let mut child = match std::process::Command::new(&exe).arg(prop_id).arg("--replay").arg(&path).stdout(std::process::Stdio::piped()).stderr(std::process::Stdio::null()).spawn() {
                Ok(c) => c,
                Err(_) => break,
            };
            let start = std::time::Instant::now();
            while start.elapsed() < std::time::Duration::from_secs(limit) {
                match child.try_wait() {
                    Ok(Some(s)) => {
                        status = Some(s);
                        break;
                    }
                    _ => std::thread::sleep(std::time::Duration::from_millis(50)),
                }
            }
            if status.is_none() {
                let _ = child.kill();
                let _ = child.wait();
                st.count("fuzz.replays_not_finished");
                continue;
            }
            if let Some(mut o) = child.stdout.take() {
                use std::io::Read;
                let _ = o.read_to_string(&mut out);
            }
            break;
        }
        let confirmed = match status {
            None => prop_id == "C07",
            Some(s) => s.code() == Some(1),
        };
        if confirmed {
            let msg = out.lines().filter(|l| !l.starts_with("VIOLATION")).collect::<Vec<_>>().join(" ").trim().to_string();
            let _ = std::fs::remove_file(&path);
            return Err((Failure::new(format!("found by the libFuzzer campaign ({}): {}", f.kind, if msg.is_empty() { "did not terminate on replay".to_string() } else { msg })), pl));
        }
        let _ = std::fs::remove_file(&path);
        st.count("fuzz.artifacts_not_confirmed_for_this_property");
    }
    Ok(())
}
