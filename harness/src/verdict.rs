//! Independent pass over the reader's events (C08 oracle; also used by C06 and C12): decides
//! which verdict the statement of C08 prescribes for a byte string under a default reader.

use quick_xml::events::Event;
use quick_xml::reader::Reader;

#[derive(Clone, Debug, PartialEq)]
pub enum Expect {
    /// no error condition in the stream; `elements` = number of Start/Empty events
    Clean { elements: usize, events: usize },
    /// the reader reported a syntax error
    Syntax { buffer_position: u64, error_position: u64, debug: String, events: usize },
    /// element name, attribute key or text is not UTF-8
    Utf8 { what: &'static str, events: usize },
    /// attribute iterator error
    Attr { debug: String, events: usize },
}

impl Expect {
    pub fn class(&self) -> &'static str {
        match self {
            Expect::Clean { elements: 0, .. } => "clean.no_element",
            Expect::Clean { .. } => "clean",
            Expect::Syntax { .. } => "syntax",
            Expect::Utf8 { .. } => "utf8",
            Expect::Attr { .. } => "attr",
        }
    }
    pub fn events(&self) -> usize {
        match self {
            Expect::Clean { events, .. } | Expect::Syntax { events, .. } | Expect::Utf8 { events, .. } | Expect::Attr { events, .. } => *events,
        }
    }
}

/// also returns the maximal nesting depth seen (for the depth <= 200 pre-screen of C07)
pub fn expected(bytes: &[u8]) -> (Expect, usize) {
    let mut r = Reader::from_reader(bytes);
    expected_with(&mut r)
}

pub fn expected_with<R: std::io::BufRead>(r: &mut Reader<R>) -> (Expect, usize) {
    let mut buf = Vec::new();
    let mut elements = 0usize;
    let mut events = 0usize;
    let mut depth = 0usize;
    let mut max_depth = 0usize;
    loop {
        buf.clear();
        let ev = r.read_event_into(&mut buf);
        match ev {
            Err(e) => {
                let debug = format!("{:?}", e);
                return (Expect::Syntax { buffer_position: r.buffer_position(), error_position: r.error_position(), debug, events }, max_depth);
            }
            Ok(Event::Eof) => return (Expect::Clean { elements, events }, max_depth),
            Ok(ev) => {
                events += 1;
                match ev {
                    Event::Start(e) | Event::Empty(e) => {
                        elements += 1;
                        if std::str::from_utf8(e.name().as_ref()).is_err() {
                            return (Expect::Utf8 { what: "element name", events }, max_depth);
                        }
                        for a in e.attributes() {
                            match a {
                                Err(err) => return (Expect::Attr { debug: format!("{:?}", err), events }, max_depth),
                                Ok(a) => {
                                    if std::str::from_utf8(a.key.as_ref()).is_err() {
                                        return (Expect::Utf8 { what: "attribute key", events }, max_depth);
                                    }
                                }
                            }
                        }
                    }
                    Event::Text(t) => {
                        if std::str::from_utf8(&t).is_err() {
                            return (Expect::Utf8 { what: "text", events }, max_depth);
                        }
                    }
                    Event::CData(t) => {
                        if std::str::from_utf8(&t).is_err() {
                            return (Expect::Utf8 { what: "cdata", events }, max_depth);
                        }
                    }
                    _ => {}
                }
            }
        }
        // depth bookkeeping needs the event kind; re-derive from the buffer is not possible, so track above
        let _ = &mut depth;
        let _ = &mut max_depth;
    }
}

/// maximal element nesting depth according to the reader's own events (independent pass)
pub fn nesting_depth(bytes: &[u8], expand_empty: bool, check_end_names: bool) -> usize {
    let mut r = Reader::from_reader(bytes);
    r.config_mut().expand_empty_elements = expand_empty;
    r.config_mut().check_end_names = check_end_names;
    let mut buf = Vec::new();
    let mut depth = 0usize;
    let mut max = 0usize;
    loop {
        buf.clear();
        match r.read_event_into(&mut buf) {
            Err(_) | Ok(Event::Eof) => return max,
            Ok(Event::Start(_)) => {
                depth += 1;
                max = max.max(depth);
            }
            Ok(Event::Empty(_)) => max = max.max(depth + 1),
            Ok(Event::End(_)) => depth = depth.saturating_sub(1),
            _ => {}
        }
    }
}
