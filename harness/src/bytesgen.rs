//! Hostile byte strings (C07, C08, C12): byte-level mutations of generated valid documents,
//! raw bytes, and nesting chains, all decoded from tapes.

use crate::model::{decode_case, Domain};
use crate::runner::Tapes;
use crate::tape::Tape;
use crate::xmlser::{serialize_docs, SurfaceCfg};

pub const DICT: &[&[u8]] = &[
    b"<", b">", b"/>", b"</", b"<![CDATA[", b"]]>", b"<!--", b"-->", b"<?", b"?>", b"<!DOCTYPE", b"<!", b"&", b"&amp;", b"&#", b";", b"\"", b"'", b"=",
    b"\xff", b"\xc3", b"\xc3\x28", b"\x00", b"\xef\xbb\xbf", b" ", b"\n", b"<a>", b"</a>", b"<a/>", b"<a b='1'>", b"<a b=\"1\" b=\"2\">", b"<a b>",
    b"<a b=c>", b"<\xff>", b"<a \xff='1'>", b"xmlns:", b":", b"<:a>", b"<a:>", b"<a::b>", b"[", b"]", b"--", b"<a b='<'>", b"<a/ >", b"<a / >", b"< a>",
    b"</ a>", b"<a\t>", b"\xe2\x82", b" \xc2\xa0", b"\xc2\x85", b"\xe2\x80\x83", b"\xe3\x80\x80", b"<a \xc2\xa0/>", b"<b\t\xc2\x85/>", b"<a \xe3\x80\x80b=\"1\"/>", b"<?xml version=\"1.0\"?>", b"<?xml version=\"1.0\" encoding=\"ISO-8859-1\"?>", b"<?xml version='1.0' encoding='UTF-16'?>", b"<!DOCTYPE a [<!ENTITY x \"y\">]>", b"<![CDATA[\xff]]>", b"\xf0\x9f\x92\xa9",
    b"<!DOCTYPE a [<!ENTITY x \"\xff\">]>", b"<!--\xff\xfe-->", b"<?p \xff?>", b"<!DOCTYPE a [<!ENTITY copyright \"(c) 2024 Soci\xc3\xa9t\xc3\xa9 G\xc3\xa9n\xc3\xa9rale \xc3\xa9\xc3\xa9\xc3\xa9\xc3\xa9\xc3\xa9\xc3\xa9\">]>", b"<!DOCTYPE a SYSTEM \"\xe9.dtd\">",
    b"<a b='1' c=\"2\" b='3'/>", b"<a 1='x'/>", b"<a b='x\xffy'/>", b"</>", b"<>", b"<a><b></a></b>",
];

pub const FRAGMENTS: &[&[u8]] = &[
    b"<a/>", b"<b/>", b"<c/>", b"<a></a>", b"<a><b/></a>", b"<b><a/></b>", b"<a><a/></a>", b"<b><b/><b/></b>", b"t", b" ", b"<!--c-->", b"<a x='1'/>",
    b"<a y='2' x='1'></a>", b"<b>t</b>", b"<a><![CDATA[d]]></a>", b"<?pi?>", b"<c><a/><b/></c>", b"<a><c><a/></c></a>", b"</a>", b"<a>", b"<b x='1' x='2'/>",
    b"<ns:a/>", b"<A/>",
];

/// the first `n_pieces` well-formed fragments, for the small-scope exhaustive histories of C07/C08
pub fn fragment_inputs(n_pieces: usize, max_len: usize) -> Vec<Vec<u8>> {
    let pieces = &FRAGMENTS[..n_pieces.min(FRAGMENTS.len())];
    let mut out: Vec<Vec<u8>> = vec![vec![]];
    let mut level: Vec<Vec<u8>> = vec![vec![]];
    for _ in 0..max_len {
        let mut next = Vec::new();
        for base in &level {
            for p in pieces {
                let mut v = base.clone();
                v.extend_from_slice(p);
                next.push(v);
            }
        }
        out.extend(next.iter().cloned());
        level = next;
    }
    out
}

fn pos(t: &mut Tape, len: usize) -> usize {
    if len == 0 {
        0
    } else {
        t.choose(len.min(65535) + 1).min(len)
    }
}

pub fn mutate(t: &mut Tape, data: &mut Vec<u8>, other: &[u8]) -> u32 {
    let n = t.weighted(&[2, 6, 4, 3, 2, 1, 1]);
    let mut applied = 0;
    for _ in 0..n {
        applied += 1;
        match t.weighted(&[4, 6, 3, 2, 3, 2, 2, 2]) {
            0 => {
                // overwrite one byte
                if !data.is_empty() {
                    let p = pos(t, data.len() - 1);
                    data[p] = t.byte();
                }
            }
            1 => {
                let p = pos(t, data.len());
                let tok = *t.pick(DICT);
                data.splice(p..p, tok.iter().copied());
            }
            2 => {
                if !data.is_empty() {
                    let p = pos(t, data.len() - 1);
                    let l = 1 + t.choose(8);
                    let e = (p + l).min(data.len());
                    data.drain(p..e);
                }
            }
            3 => {
                if !data.is_empty() {
                    let p = pos(t, data.len() - 1);
                    let l = 1 + t.choose(24);
                    let e = (p + l).min(data.len());
                    let seg: Vec<u8> = data[p..e].to_vec();
                    let q = pos(t, data.len());
                    data.splice(q..q, seg);
                }
            }
            4 => {
                let p = pos(t, data.len());
                data.truncate(p);
            }
            5 => {
                if !other.is_empty() {
                    let p = pos(t, other.len() - 1);
                    let l = 1 + t.choose(40);
                    let e = (p + l).min(other.len());
                    let q = pos(t, data.len());
                    data.splice(q..q, other[p..e].iter().copied());
                }
            }
            6 => {
                // swap two bytes
                if data.len() >= 2 {
                    let p = pos(t, data.len() - 1);
                    let q = pos(t, data.len() - 1);
                    data.swap(p, q);
                }
            }
            _ => {
                // insert a raw byte
                let p = pos(t, data.len());
                let b = t.byte();
                data.insert(p, b);
            }
        }
        if data.len() > 6000 {
            data.truncate(6000);
        }
    }
    applied
}

#[derive(Clone, Debug)]
pub struct ByteCase {
    /// inputs for into_struct, extend_struct, extend_struct, ...
    pub inputs: Vec<Vec<u8>>,
    pub kind: &'static str,
    pub mutated: Vec<bool>,
}

fn byte_domain() -> Domain {
    let mut d = Domain::general();
    d.no_prefix_clash = false;
    d.no_prefix_clash = false;
    d.max_nodes = 14;
    d.max_depth = 5;
    d.max_docs = 3;
    // wide documents matter for rendering (sorting more than 20 children or attributes)
    d.allow_wide = true;
    d
}

/// tapes.a = structure, tapes.b = surface, `m` = mutation tape (caller strips its own config bytes first)
pub fn decode_bytes(tapes: &Tapes, m: &mut Tape) -> ByteCase {
    match m.weighted(&[10, 2, 2, 1, 3, 2]) {
        5 => {
            // one parent with 21..80 children (and as many attributes) whose names are built combinatorially,
            // with and without prefixes: exercises sorting / lookup code paths that switch behaviour with size
            let n = 21 + m.choose(60);
            let prefixes: [&str; 5] = ["", "", "a:", "m:", "z:"];
            let mut v = b"<r".to_vec();
            let na = m.choose(40);
            let mut seen_attr: Vec<String> = Vec::new();
            for _ in 0..na {
                let name = format!("{}{}{}", prefixes[m.choose(5)], (b'a' + m.choose(26) as u8) as char, (b'a' + m.choose(26) as u8) as char);
                if seen_attr.contains(&name) {
                    continue;
                }
                v.extend_from_slice(format!(" {}='1'", name).as_bytes());
                seen_attr.push(name);
            }
            v.push(b'>');
            for _ in 0..n {
                let name = format!("{}{}{}", prefixes[m.choose(5)], (b'a' + m.choose(26) as u8) as char, (b'a' + m.choose(26) as u8) as char);
                match m.choose(3) {
                    0 => v.extend_from_slice(format!("<{}/>", name).as_bytes()),
                    1 => v.extend_from_slice(format!("<{} k='v'>t</{}>", name, name).as_bytes()),
                    _ => v.extend_from_slice(format!("<{}><x/></{}>", name, name).as_bytes()),
                }
            }
            v.extend_from_slice(b"</r>");
            let mut inputs = vec![v.clone()];
            if m.chance(80) {
                inputs.push(v);
            }
            let k = inputs.len();
            ByteCase { inputs, kind: "many_named_children", mutated: vec![false; k] }
        }
        4 => {
            // fragments: several top-level pieces per input (multi-root inputs are accepted by the reader),
            // small alphabet so that the same names meet again across parse / extend / extend
            let n = 1 + m.choose(3);
            let mut inputs = Vec::new();
            for _ in 0..n {
                let k = 1 + m.choose(6);
                let mut v = Vec::new();
                for _ in 0..k {
                    let piece: &[u8] = *m.pick(FRAGMENTS);
                    v.extend_from_slice(piece);
                }
                inputs.push(v);
            }
            let k = inputs.len();
            ByteCase { inputs, kind: "fragments", mutated: vec![false; k] }
        }
        1 => {
            // raw bytes, possibly with tokens sprinkled in
            let n = 1 + m.choose(3);
            let mut inputs = Vec::new();
            for _ in 0..n {
                let len = m.choose(200);
                let mut v: Vec<u8> = (0..len).map(|_| m.byte()).collect();
                let toks = m.choose(6);
                for _ in 0..toks {
                    let p = pos(m, v.len());
                    let tok = *m.pick(DICT);
                    v.splice(p..p, tok.iter().copied());
                }
                inputs.push(v);
            }
            let k = inputs.len();
            ByteCase { inputs, kind: "raw", mutated: vec![true; k] }
        }
        2 => {
            // nesting chains (depth up to 200 is inside the statement; deeper ones are screened out by the caller)
            let depth = 1 + m.choose(260);
            let names: [&[u8]; 4] = [b"a", b"b", b"ns:c", b"Foo"];
            let mut v = Vec::new();
            let pat = m.choose(3);
            let mut stack: Vec<&[u8]> = Vec::new();
            for i in 0..depth {
                let n = match pat {
                    0 => names[0],
                    1 => names[i % 4],
                    _ => names[m.choose(4)],
                };
                v.push(b'<');
                v.extend_from_slice(n);
                if m.chance(30) {
                    v.extend_from_slice(b" k='v'");
                }
                v.push(b'>');
                stack.push(n);
            }
            let close = match m.choose(4) {
                0 => 0,
                1 => depth / 2,
                _ => depth,
            };
            for _ in 0..close {
                if let Some(n) = stack.pop() {
                    v.extend_from_slice(b"</");
                    v.extend_from_slice(n);
                    v.push(b'>');
                }
            }
            let mut inputs = vec![v.clone()];
            if m.chance(100) {
                inputs.push(v);
            }
            let k = inputs.len();
            ByteCase { inputs, kind: "chain", mutated: vec![false; k] }
        }
        3 => {
            // empty / element-less / tiny inputs
            let tiny: &[&[u8]] = &[b"", b" ", b"<", b"<a", b"<a>", b"</a>", b"<a/>", b"<!--", b"<?xml", b"&", b"x", b"<![CDATA[", b"<a b", b"<a b=", b"<a b='", b"\xff", b"<!DOCTYPE", b"<!DOCTYPE a [", b"<a></a", b"<a/><b/>"];
            let n = 1 + m.choose(3);
            let inputs: Vec<Vec<u8>> = (0..n).map(|_| m.pick(tiny).to_vec()).collect();
            let k = inputs.len();
            ByteCase { inputs, kind: "tiny", mutated: vec![true; k] }
        }
        _ => {
            let mut t = Tape::new(&tapes.a);
            let case = decode_case(&mut t, &byte_domain());
            let (mut bytes, _, _) = serialize_docs(&case.docs, &tapes.b, &SurfaceCfg::full());
            let orig = bytes.clone();
            let mut mutated = vec![false; bytes.len()];
            // usually damage exactly one member, sometimes several, sometimes none
            let which = m.choose(bytes.len() + 2);
            for i in 0..bytes.len() {
                let hit = which == i || which == bytes.len() + 1 && m.chance(128);
                if hit {
                    let other = &orig[(i + 1) % orig.len()];
                    if mutate(m, &mut bytes[i], other) > 0 {
                        mutated[i] = true;
                    }
                }
            }
            ByteCase { inputs: bytes, kind: "mutated", mutated }
        }
    }
}
