pub mod model;
pub mod props;
pub mod refinf;
pub mod rendered;
pub mod runner;
pub mod sut;
pub mod tape;
pub mod xmlser;
