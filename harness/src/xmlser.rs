//! Serialises a structural document (model::Node) to bytes, drawing every incidental choice
//! (the "surface") from its own tape, and records the logical values written (VNode) so that
//! C02/C13 can compare deserialized values with what the document really contains.

use crate::model::{Item, Node};
use crate::tape::Tape;
use serde::Serialize;

#[derive(Clone, Debug, Serialize)]
pub struct Chunk {
    pub cdata: bool,
    /// logical (unescaped) characters
    pub value: String,
}

#[derive(Clone, Debug, Serialize)]
pub struct VNode {
    pub name: String,
    pub attrs: Vec<(String, String)>,
    /// character-data chunks in document order (a comment/PI between two chunks does not merge them here)
    pub chunks: Vec<Chunk>,
    pub children: Vec<VNode>,
}

#[derive(Clone, Debug)]
pub struct SurfaceCfg {
    /// allow comments / PIs between items and inside text
    pub comments: bool,
    pub prolog: bool,
    pub doctype: bool,
    pub bom: bool,
    /// allow entity and character references
    pub escapes: bool,
    /// ignore the model's blank flag for Chars (C11: any non-empty content is equivalent)
    pub free_blankness: bool,
    /// allow CDATA for Chars
    pub cdata: bool,
    /// text chunks never start/end with blanks next to another chunk (keeps concatenation semantics simple)
    pub tidy_text: bool,
    /// allow text outside the root element (whitespace only)
    pub outer_ws: bool,
    /// allow `>` , quotes etc. in attribute values
    pub rich_values: bool,
    /// allow DOCTYPE with internal subset
    pub doctype_subset: bool,
    /// allow CR in content (line-end normalisation is not done by quick-xml, deserializers differ)
    pub allow_cr: bool,
    /// allow blank character data to be written as CDATA
    pub blank_cdata: bool,
    /// allow processing instructions (comments are governed by `comments`)
    pub pis: bool,
    /// allow long content (text, CDATA, attribute values, comments of up to ~1.5 KB with multi-byte
    /// characters at arbitrary byte offsets)
    pub long_content: bool,
    /// allow references to general entities declared in an internal DTD subset (`&e;`, `&nbsp;`, `&copy;`) as text:
    /// well-formed, non-empty character data that a reader cannot unescape without the DTD
    pub general_entities: bool,
    /// character data that consists of Unicode white space which is not XML white space (U+00A0, U+3000, U+2003, U+0085):
    /// non-blank text as far as XML is concerned
    pub unicode_ws: bool,
    /// a declared legacy encoding is kept even when the (UTF-8) document has non-ASCII characters: the library ignores the
    /// declaration, and so must a program that claims to be the library plus a header (C12 only)
    pub legacy_decl_any: bool,
}

impl SurfaceCfg {
    pub fn full() -> Self {
        SurfaceCfg {
            comments: true,
            prolog: true,
            doctype: true,
            bom: true,
            escapes: true,
            free_blankness: false,
            cdata: true,
            tidy_text: false,
            outer_ws: true,
            rich_values: true,
            doctype_subset: true,
            allow_cr: true,
            blank_cdata: true,
            pis: true,
            long_content: true,
            general_entities: true,
            unicode_ws: true,
            legacy_decl_any: false,
        }
    }
    pub fn plain() -> Self {
        SurfaceCfg {
            comments: false,
            prolog: false,
            doctype: false,
            bom: false,
            escapes: false,
            free_blankness: false,
            cdata: true,
            tidy_text: true,
            outer_ws: false,
            rich_values: false,
            doctype_subset: false,
            allow_cr: false,
            blank_cdata: true,
            pis: true,
            long_content: false,
            general_entities: false,
            unicode_ws: false,
            legacy_decl_any: false,
        }
    }
}

const BLANKS: &[&str] = &[" ", "\n", "\n  ", "\t", "  ", "\n\n", " \n\t "];
const BLANKS_CR: &[&str] = &["\r\n", "\r"];

/// (raw, logical) text snippets without leading/trailing blanks
const TEXTS: &[(&str, &str)] = &[
    ("x", "x"),
    ("hello", "hello"),
    ("hello world", "hello world"),
    ("42", "42"),
    ("é", "é"),
    ("名前", "名前"),
    ("a]]b", "a]]b"),
    ("q'uo\"te", "q'uo\"te"),
    ("a/b", "a/b"),
    ("-->", "-->"),
];
const TEXTS_ESC: &[(&str, &str)] = &[
    ("1 &lt; 2", "1 < 2"),
    ("&amp;", "&"),
    ("a&amp;b", "a&b"),
    ("&#65;", "A"),
    ("&#x4e2d;", "中"),
    ("&gt;&quot;&apos;", ">\"'"),
    ("&lt;tag&gt;", "<tag>"),
    ("x&#32;y", "x y"),
];
/// `<!DOCTYPE root [ <!ELEMENT ..> <!ATTLIST ..> .. ]>` for the root and up to five descendants (document order).
/// The declarations say nothing about the structure of the instance: an inference that reads events of the
/// document must render the same with and without them.
fn attlist_subset(root: &Node) -> String {
    let mut names: Vec<(&str, &[String])> = Vec::new();
    let mut stack = vec![root];
    while let Some(n) = stack.pop() {
        if names.len() >= 6 {
            break;
        }
        if !names.iter().any(|(k, _)| *k == n.name) {
            names.push((&n.name, &n.attrs));
        }
        let kids: Vec<&Node> = n.children().collect();
        for c in kids.into_iter().rev() {
            stack.push(c);
        }
    }
    let mut d = format!("<!DOCTYPE {} [\n", root.name);
    for (name, attrs) in names {
        d.push_str(&format!("  <!ELEMENT {} ANY>\n  <!ATTLIST {}", name, name));
        for (i, a) in attrs.iter().take(4).enumerate() {
            let decl = match i % 4 {
                0 => "CDATA \"dflt\"",
                1 => "CDATA #IMPLIED",
                2 => "(one|two) 'one'",
                _ => "CDATA #REQUIRED",
            };
            d.push_str(&format!("\n      {} {}", a, decl));
        }
        d.push_str("\n      dfl-currency CDATA \"EUR\"\n      dfl-unit (piece|kg) \"piece\"\n      dfl-vat CDATA #FIXED \"19\"\n      dfl-origin NMTOKEN 'DE'\n      dfl-note CDATA #IMPLIED>\n");
    }
    d.push_str("]>");
    d
}

/// references to general entities declared by ENT_SUBSET (the logical value is what a DTD-aware parser would see)
const TEXTS_ENT: &[(&str, &str)] = &[("&e;", "v"), ("&nbsp;", "\u{a0}"), ("&copy;", "(c)"), ("a&e;b", "avb"), ("&copy; 2024 &e;", "(c) 2024 v"), ("&d;", "d")];
const ENT_SUBSET: &str = "<!ENTITY e \"v\"><!ENTITY nbsp \"&#160;\"><!ENTITY copy \"(c)\"><!ENTITY d 'd'>";
const CDATAS: &[&str] = &["\u{a0}", "\u{3000}\u{2003}", "x", "<tag>&amp;</tag>", "]]", "a > b", "hello", "&lt;", "名", "]", "<!--no-->", "<?pi?>", "Tom & Jerry", "?a=1&b=2", "&unknown;", "&#xZZ;", "&"];
/// Unicode white space that is not XML white space: character data like any other letter as far as XML is concerned
const TEXTS_UWS: &[(&str, &str)] = &[("\u{a0}", "\u{a0}"), ("\u{3000}", "\u{3000}"), ("\u{2003}\u{2009}", "\u{2003}\u{2009}"), ("\u{85}", "\u{85}"), ("\u{2028}", "\u{2028}"), ("\u{a0}x\u{a0}", "\u{a0}x\u{a0}")];
const CDATAS_PADDED: &[&str] = &[" x ", "\n x", " ", "\n"];

const ATTR_VALUES: &[(&str, &str)] = &[("v", "v"), ("", ""), ("1", "1"), ("hello world", "hello world"), ("é", "é"), ("x-y_z.0", "x-y_z.0")];
const ATTR_VALUES_RICH: &[(&str, &str)] = &[
    (" padded ", " padded "),
    ("a  b", "a  b"),
    ("a>b", "a>b"),
    ("/>", "/>"),
    ("a=b", "a=b"),
    ("--&gt;", "-->"),
    ("]]>", "]]>"),
    ("urn:x", "urn:x"),
    ("http://example.org/ns?a=1", "http://example.org/ns?a=1"),
    // quotes of either kind (the one that delimits the value is written as a reference), `name=value` look-alikes inside
    ("it's two", "it's two"),
    ("say \"hi\"", "say \"hi\""),
    ("a 'k=v' b", "a 'k=v' b"),
    ("\"x=1\" 'y=2'", "\"x=1\" 'y=2'"),
    ("'", "'"),
    ("\"", "\""),
    (" k='v' ", " k='v' "),
];
const ATTR_VALUES_ESC: &[(&str, &str)] = &[
    ("&lt;", "<"),
    ("&amp;", "&"),
    ("a&amp;b", "a&b"),
    ("&#65;", "A"),
    ("&quot;", "\""),
    ("&apos;", "'"),
    ("&#x9;", "\t"),
    ("&#10;", "\n"),
    ("&gt;", ">"),
];

const COMMENTS: &[&str] = &[
    "<!---->",
    "<!-- c -->",
    "<!--<a b='1'>-->",
    "<!-- & < > ]]> -->",
    "<!--\n-->",
    "<!-- served below /api/* -->",
    "<!-- */ pub struct X { /* -->",
    "<!-- // \"quoted\" \\ -->",
    "<!--\n  two lines,\n  in EUR\n-->",
    "<!-- \r\n \r\n -->",
    "<!--#[derive(Debug)]-->",
    "<!-- } -->",
    "<!-- é名 -->",
];
const PIS: &[&str] = &["<?pi?>", "<?target data?>", "<?x <a> ?>", "<?php echo '>' ?>"];

pub struct Ser<'t, 'c> {
    pub out: Vec<u8>,
    t: Tape<'t>,
    cfg: &'c SurfaceCfg,
    pub n_comments: u32,
    pub n_cdata: u32,
    pub n_selfclosed: u32,
    pub n_expanded_empty: u32,
    pub n_entity_refs: u32,
    pub n_nil_true: u32,
    /// position and length of an XML declaration that names a legacy encoding
    legacy_decl: Option<(usize, usize)>,
    pub n_legacy_decl: u32,
    /// the document declares the general entities of TEXTS_ENT
    ent_ok: bool,
}

impl<'t, 'c> Ser<'t, 'c> {
    pub fn new(tape: &'t [u8], cfg: &'c SurfaceCfg) -> Self {
        Ser { out: Vec::new(), t: Tape::new(tape), cfg, n_comments: 0, n_cdata: 0, n_selfclosed: 0, n_expanded_empty: 0, n_entity_refs: 0, n_nil_true: 0, legacy_decl: None, n_legacy_decl: 0, ent_ok: false }
    }

    fn push(&mut self, s: &str) {
        self.out.extend_from_slice(s.as_bytes());
    }

    /// long run of characters: `pad` ASCII characters, then a short unit repeated, so that multi-byte
    /// characters fall on every byte offset (64, 128, 256, 1024 ... boundaries included)
    fn long_run(&mut self) -> String {
        const UNITS: &[&str] = &["x", "ab", "é", "€", "名", "xy z", "0123456789", "ñ-", "𝄞"];
        let pad = self.t.choose(4);
        let unit = *self.t.pick(UNITS);
        let reps = 1 + self.t.choose(200);
        // one run in sixteen is much longer: beyond 4 KiB, 8 KiB (the default BufReader capacity) or 64 KiB
        let (reps, cap) = if self.t.chance(16) { let c = *self.t.pick(&[4200usize, 8300, 66000]); (c, c) } else { (reps, 1500) };
        let mut s = String::with_capacity(pad + unit.len() * reps.min(cap));
        for _ in 0..pad {
            s.push('p');
        }
        for _ in 0..reps {
            s.push_str(unit);
            if s.len() > cap {
                break;
            }
        }
        s
    }

    fn misc(&mut self) {
        // comments / PIs (never character data)
        if !self.cfg.comments {
            return;
        }
        while self.t.chance(24) {
            self.n_comments += 1;
            if self.t.chance(90) && self.cfg.pis {
                let p = *self.t.pick(PIS);
                self.push(p);
            } else if self.cfg.long_content && self.t.chance(20) {
                let body = self.long_run().replace("--", "- -");
                self.push("<!-- ");
                self.push(&body);
                self.push(" -->");
            } else {
                let c = *self.t.pick(COMMENTS);
                self.push(c);
            }
        }
    }

    fn tag_ws(&mut self) {
        if self.t.chance(20) {
            let b = *self.t.pick(&[" ", "\n", "  ", "\t"]);
            self.push(b);
        }
    }

    fn attr_value(&mut self) -> (String, String) {
        if self.cfg.long_content && self.t.chance(14) {
            let v = self.long_run();
            return (v.clone(), v);
        }
        let mut opts: Vec<&[(&str, &str)]> = vec![ATTR_VALUES];
        if self.cfg.rich_values {
            opts.push(ATTR_VALUES_RICH);
        }
        if self.cfg.escapes {
            opts.push(ATTR_VALUES_ESC);
        }
        let set = opts[self.t.choose(opts.len())];
        let (raw, logical) = *self.t.pick(set);
        (raw.to_string(), logical.to_string())
    }

    fn chars(&mut self, blank: bool, v: &mut VNode, neighbours_chunk: bool) {
        let blank = if self.cfg.free_blankness { self.t.chance(100) } else { blank };
        let as_cdata = self.cfg.cdata && self.t.chance(70) && (!blank || self.cfg.blank_cdata);
        if self.cfg.long_content && self.t.chance(26) {
            // long content, as text or as CDATA
            let v_long = if blank { " ".repeat(1 + self.t.choose(200)) } else { self.long_run() };
            if as_cdata {
                self.n_cdata += 1;
                self.push("<![CDATA[");
                self.push(&v_long);
                self.push("]]>");
            } else {
                self.push(&v_long);
            }
            v.chunks.push(Chunk { cdata: as_cdata, value: v_long });
            return;
        }
        if as_cdata {
            self.n_cdata += 1;
            let content: &str = if blank {
                *self.t.pick(&[" ", "\n", "  "])
            } else if !self.cfg.tidy_text && self.t.chance(40) {
                // padded CDATA that still has a non-blank character, or blank-only when free
                let c = *self.t.pick(CDATAS_PADDED);
                if c.trim().is_empty() {
                    " x "
                } else {
                    c
                }
            } else {
                *self.t.pick(CDATAS)
            };
            self.push("<![CDATA[");
            self.push(content);
            self.push("]]>");
            v.chunks.push(Chunk { cdata: true, value: content.to_string() });
            return;
        }
        if blank {
            let b = if self.cfg.allow_cr && self.t.chance(20) { *self.t.pick(BLANKS_CR) } else { *self.t.pick(BLANKS) };
            self.push(b);
            v.chunks.push(Chunk { cdata: false, value: b.to_string() });
            return;
        }
        // non-blank text, possibly several snippets, possibly split by a comment
        let mut raw = String::new();
        let mut logical = String::new();
        let pad = !self.cfg.tidy_text && !neighbours_chunk;
        if pad && self.t.chance(40) {
            let b = *self.t.pick(BLANKS);
            raw.push_str(b);
            logical.push_str(b);
        }
        let n = 1 + self.t.weighted(&[10, 2, 1]);
        for i in 0..n {
            if i > 0 {
                raw.push(' ');
                logical.push(' ');
            }
            let set = if self.ent_ok && self.t.chance(110) {
                self.n_entity_refs += 1;
                TEXTS_ENT
            } else if self.cfg.escapes && self.t.chance(70) {
                TEXTS_ESC
            } else if self.cfg.unicode_ws && self.t.chance(14) {
                TEXTS_UWS
            } else {
                TEXTS
            };
            let (r, l) = *self.t.pick(set);
            raw.push_str(r);
            logical.push_str(l);
            if i + 1 < n && self.cfg.comments && self.t.chance(30) {
                // split the text by a comment: two Text events, logically one run of characters
                self.push(&raw);
                v.chunks.push(Chunk { cdata: false, value: std::mem::take(&mut logical) });
                raw.clear();
                self.n_comments += 1;
                let c = *self.t.pick(COMMENTS);
                self.push(c);
            }
        }
        if pad && self.t.chance(40) {
            let b = *self.t.pick(BLANKS);
            raw.push_str(b);
            logical.push_str(b);
        }
        self.push(&raw);
        v.chunks.push(Chunk { cdata: false, value: logical });
    }

    pub fn node(&mut self, n: &Node) -> VNode {
        let mut v = VNode { name: n.name.clone(), attrs: vec![], chunks: vec![], children: vec![] };
        self.push("<");
        self.push(&n.name);
        for a in &n.attrs {
            let ws = if self.t.chance(20) { *self.t.pick(&["  ", "\n", "\t", " \n "]) } else { " " };
            self.push(ws);
            self.push(a);
            if self.t.chance(12) {
                self.push(" = ");
            } else {
                self.push("=");
            }
            let (mut raw, mut logical) = self.attr_value();
            // attributes with a meaning of their own in XML Schema instances / XML 1.0 get the values that carry it
            // (a function of the value drawn above, so that the tape is consumed as for any other attribute)
            if a == "xsi:nil" {
                logical = ["true", "1", "false", "true"][logical.len() % 4].to_string();
                raw = logical.clone();
                if logical != "false" {
                    self.n_nil_true += 1;
                }
            } else if a == "xml:space" {
                logical = ["preserve", "default"][logical.len() % 2].to_string();
                raw = logical.clone();
            }
            let q = if self.t.chance(60) { '\'' } else { '"' };
            // keep the value well-formed for the chosen quote
            if q == '\'' {
                raw = raw.replace('\'', "&apos;");
            } else {
                raw = raw.replace('"', "&quot;");
            }
            self.out.push(q as u8);
            self.push(&raw);
            self.out.push(q as u8);
            v.attrs.push((a.clone(), logical));
        }
        self.tag_ws();
        if n.items.is_empty() {
            // `<x/>` versus `<x></x>` is surface
            if self.t.chance(128) {
                self.n_expanded_empty += 1;
                self.push("></");
                self.push(&n.name);
                self.tag_ws();
                self.push(">");
            } else {
                self.n_selfclosed += 1;
                self.push("/>");
            }
            return v;
        }
        self.push(">");
        let len = n.items.len();
        for (i, it) in n.items.iter().enumerate() {
            self.misc();
            match it {
                Item::Chars { blank } => {
                    let neighbours = (i > 0 && !matches!(n.items[i - 1], Item::Child(_)))
                        || (i + 1 < len && !matches!(n.items[i + 1], Item::Child(_)));
                    self.chars(*blank, &mut v, neighbours)
                }
                Item::EmptyCData => {
                    self.n_cdata += 1;
                    self.push("<![CDATA[]]>");
                    v.chunks.push(Chunk { cdata: true, value: String::new() });
                }
                Item::Child(c) => {
                    let cv = self.node(c);
                    v.children.push(cv);
                }
            }
        }
        self.misc();
        self.push("</");
        self.push(&n.name);
        self.tag_ws();
        self.push(">");
        v
    }

    pub fn document(&mut self, root: &Node) -> VNode {
        if self.cfg.bom && self.t.chance(12) {
            self.out.extend_from_slice(&[0xEF, 0xBB, 0xBF]);
        }
        if self.cfg.prolog && self.t.chance(60) {
            let d = *self.t.pick(&[
                "<?xml version=\"1.0\"?>",
                "<?xml version=\"1.0\" encoding=\"UTF-8\"?>",
                "<?xml version='1.0' encoding='utf-8' standalone='yes'?>",
                "<?xml version=\"1.0\"?>",
                "<?xml version=\"1.0\" encoding=\"UTF-8\"?>",
                // a declared legacy encoding is only kept when the document turns out to be pure ASCII (see below)
                "<?xml version=\"1.0\" encoding=\"ISO-8859-1\"?>",
                "<?xml version='1.0' encoding='us-ascii'?>",
            ]);
            if d.contains("8859") || d.contains("ascii") {
                self.legacy_decl = Some((self.out.len(), d.len()));
            }
            self.push(d);
            if self.cfg.outer_ws && self.t.chance(128) {
                self.push("\n");
            }
        } else if self.cfg.outer_ws && self.t.chance(40) {
            // leading blanks are only allowed when there is no XML declaration
            let b = *self.t.pick(&["\n", " ", "\n  ", "\t", "\n\n\n\n", "        "]);
            self.push(b);
        }
        self.misc();
        if self.cfg.general_entities && self.t.chance(64) {
            // a DOCTYPE whose internal subset declares the general entities used as text further down
            self.ent_ok = true;
            let d = format!("<!DOCTYPE {} [{}]>", root.name, ENT_SUBSET);
            self.push(&d);
            if self.cfg.outer_ws && self.t.chance(128) {
                self.push("\n");
            }
            self.misc();
        } else if self.cfg.doctype && self.t.chance(30) {
            let plain = format!("<!DOCTYPE {}>", root.name);
            let sys = format!("<!DOCTYPE {} SYSTEM \"x.dtd\">", root.name);
            let subset = format!("<!DOCTYPE {} [<!ELEMENT {} ANY><!ENTITY e \"v\">]>", root.name, root.name);
            // a long internal subset with multi-byte characters at varying byte offsets
            let long_subset = if self.cfg.long_content { format!("<!DOCTYPE {} [<!ENTITY c \"{}\">]>", root.name, self.long_run().replace('"', "'").replace('%', "p").replace('&', "a").replace('<', "l")) } else { subset.clone() };
            // attribute-list declarations (defaults, #FIXED, #IMPLIED, #REQUIRED, enumerations) for the root and the
            // first few descendants: declared for attributes the elements carry and for ones no occurrence spells
            let attlist_subset = if self.cfg.doctype_subset { attlist_subset(root) } else { subset.clone() };
            let which = self.t.choose(if self.cfg.doctype_subset { 6 } else { 2 });
            self.push(match which {
                0 => &plain,
                1 => &sys,
                2 => &subset,
                3 => &long_subset,
                _ => &attlist_subset,
            });
            if self.cfg.outer_ws && self.t.chance(128) {
                self.push("\n");
            }
            self.misc();
        }
        let v = self.node(root);
        self.misc();
        if self.cfg.outer_ws && self.t.chance(60) {
            let b = *self.t.pick(&["\n", " ", "\n\n", "\t\n"]);
            self.push(b);
        }
        if let Some((at, len)) = self.legacy_decl.take() {
            // the bytes are UTF-8: a legacy encoding may only be declared when they are pure ASCII
            if self.out.is_ascii() || self.cfg.legacy_decl_any {
                self.n_legacy_decl += 1;
            } else {
                self.out.splice(at..at + len, b"<?xml version=\"1.0\"?>".iter().copied());
            }
        }
        v
    }
}

/// serialise one document with the given surface tape
pub fn serialize(root: &Node, surface: &[u8], cfg: &SurfaceCfg) -> (Vec<u8>, VNode) {
    let mut s = Ser::new(surface, cfg);
    let v = s.document(root);
    (s.out, v)
}

pub struct SerStats {
    pub comments: u32,
    pub cdata: u32,
    pub selfclosed: u32,
    pub expanded_empty: u32,
    pub entity_refs: u32,
    pub nil_true: u32,
    pub legacy_decl: u32,
}

pub fn serialize_stats(root: &Node, surface: &[u8], cfg: &SurfaceCfg) -> (Vec<u8>, VNode, SerStats) {
    let mut s = Ser::new(surface, cfg);
    let v = s.document(root);
    let st = SerStats { comments: s.n_comments, cdata: s.n_cdata, selfclosed: s.n_selfclosed, expanded_empty: s.n_expanded_empty, entity_refs: s.n_entity_refs, nil_true: s.n_nil_true, legacy_decl: s.n_legacy_decl };
    (s.out, v, st)
}

/// serialise a sequence of documents, one surface tape running across all of them
pub fn serialize_docs(docs: &[Node], surface: &[u8], cfg: &SurfaceCfg) -> (Vec<Vec<u8>>, Vec<VNode>, SerStats) {
    let mut s = Ser::new(surface, cfg);
    let mut bytes = Vec::new();
    let mut vs = Vec::new();
    for d in docs {
        let v = s.document(d);
        bytes.push(std::mem::take(&mut s.out));
        vs.push(v);
    }
    let st = SerStats { comments: s.n_comments, cdata: s.n_cdata, selfclosed: s.n_selfclosed, expanded_empty: s.n_expanded_empty, entity_refs: s.n_entity_refs, nil_true: s.n_nil_true, legacy_decl: s.n_legacy_decl };
    (bytes, vs, st)
}

/// a second fixed surface for the small-scope search of C11: empty elements written as start/end pair,
/// character data as CDATA, a comment and a PI after every start tag, attribute values replaced, prolog added
pub fn canonical_variant(root: &Node) -> String {
    fn go(n: &Node, out: &mut String) {
        out.push('<');
        out.push_str(&n.name);
        for a in &n.attrs {
            out.push_str("\n  ");
            out.push_str(a);
            out.push_str(" = 'other &amp; value'");
        }
        out.push('>');
        if !n.items.is_empty() {
            out.push_str("<!-- c --><?pi?>");
        }
        for it in &n.items {
            match it {
                Item::Chars { blank: true } => out.push_str("<![CDATA[ ]]>"),
                Item::Chars { blank: false } => out.push_str("<![CDATA[<y>]]>"),
                Item::EmptyCData => out.push_str("<![CDATA[]]>"),
                Item::Child(c) => go(c, out),
            }
        }
        out.push_str("</");
        out.push_str(&n.name);
        out.push_str(" >");
    }
    let mut s = String::from("<?xml version=\"1.0\"?>\n<!DOCTYPE x>\n");
    go(root, &mut s);
    s.push('\n');
    s
}

/// canonical, surface-free serialisation (used for samples and replay files)
pub fn canonical(root: &Node) -> String {
    fn go(n: &Node, out: &mut String) {
        out.push('<');
        out.push_str(&n.name);
        for a in &n.attrs {
            out.push(' ');
            out.push_str(a);
            out.push_str("=\"v\"");
        }
        if n.items.is_empty() {
            out.push_str("/>");
            return;
        }
        out.push('>');
        for it in &n.items {
            match it {
                Item::Chars { blank: true } => out.push(' '),
                Item::Chars { blank: false } => out.push('x'),
                Item::EmptyCData => out.push_str("<![CDATA[]]>"),
                Item::Child(c) => go(c, out),
            }
        }
        out.push_str("</");
        out.push_str(&n.name);
        out.push('>');
    }
    let mut s = String::new();
    go(root, &mut s);
    s
}
