//! Reference inference (DESIGN.md §3.2): computed from the generator's DOM only.
//! Obviously-correct set logic; never consults the crate under test.

use crate::model::Node;
use serde::Serialize;

#[derive(Clone, Debug, Serialize, PartialEq, Eq)]
pub struct SAttr {
    pub name: String,
    pub optional: bool,
}

#[derive(Clone, Debug, Serialize, PartialEq, Eq)]
pub struct SChild {
    pub optional: bool,
    pub multiple: bool,
    pub schema: Schema,
}

#[derive(Clone, Debug, Serialize, PartialEq, Eq)]
pub struct Schema {
    pub name: String,
    /// first-appearance order
    pub attrs: Vec<SAttr>,
    pub text: bool,
    /// first-appearance order
    pub children: Vec<SChild>,
    pub occurrences: usize,
}

impl Schema {
    pub fn string_typed(&self) -> bool {
        self.text && self.attrs.is_empty() && self.children.is_empty()
    }
    pub fn count_positions(&self) -> usize {
        1 + self.children.iter().map(|c| c.schema.count_positions()).sum::<usize>()
    }
    pub fn count_struct_positions(&self) -> usize {
        (if self.string_typed() { 0 } else { 1 }) + self.children.iter().map(|c| c.schema.count_struct_positions()).sum::<usize>()
    }
    pub fn child(&self, name: &str) -> Option<&SChild> {
        self.children.iter().find(|c| c.schema.name == name)
    }
}

/// infer the schema of one position from all its occurrences (document order, then sequence order)
pub fn infer(name: &str, occs: &[&Node]) -> Schema {
    let mut attrs: Vec<SAttr> = Vec::new();
    let mut child_names: Vec<String> = Vec::new();
    let mut text = false;
    for o in occs {
        for a in &o.attrs {
            if !attrs.iter().any(|x| x.name == *a) {
                attrs.push(SAttr { name: a.clone(), optional: false });
            }
        }
        if o.has_chars() {
            text = true;
        }
        for c in o.children() {
            if !child_names.contains(&c.name) {
                child_names.push(c.name.clone());
            }
        }
    }
    for a in attrs.iter_mut() {
        a.optional = occs.iter().any(|o| !o.attrs.contains(&a.name));
    }
    let mut children = Vec::new();
    for cn in child_names {
        let optional = occs.iter().any(|o| !o.children().any(|c| c.name == cn));
        let multiple = occs.iter().any(|o| o.children().filter(|c| c.name == cn).count() >= 2);
        let sub: Vec<&Node> = occs.iter().flat_map(|o| o.children().filter(|c| c.name == cn)).collect();
        children.push(SChild { optional, multiple, schema: infer(&cn, &sub) });
    }
    Schema { name: name.to_string(), attrs, text, children, occurrences: occs.len() }
}

pub fn infer_docs(docs: &[Node]) -> Schema {
    let occs: Vec<&Node> = docs.iter().collect();
    infer(&docs[0].name, &occs)
}

/// order-insensitive normal form (for the algebraic laws of C06)
pub fn normalized(s: &Schema) -> Schema {
    let mut attrs = s.attrs.clone();
    attrs.sort_by(|a, b| a.name.cmp(&b.name));
    let mut children: Vec<SChild> =
        s.children.iter().map(|c| SChild { optional: c.optional, multiple: c.multiple, schema: normalized(&c.schema) }).collect();
    children.sort_by(|a, b| a.schema.name.cmp(&b.schema.name));
    Schema { name: s.name.clone(), attrs, text: s.text, children, occurrences: 0 }
}
