//! Readers of `to_serde_struct` output (DESIGN.md §3.3): a strict line reader for the documented
//! layout and a syn-based reader, cross-checked; plus the rebuild of the struct tree from the
//! pre-order position of the struct items.

use serde::Serialize;

#[derive(Clone, Debug, Serialize, PartialEq, Eq)]
pub struct FieldDef {
    pub rename: Option<String>,
    pub ident: String,
    pub optional: bool,
    pub vec: bool,
    pub base: String,
}

impl FieldDef {
    pub fn bound(&self) -> &str {
        self.rename.as_deref().unwrap_or(&self.ident)
    }
    pub fn type_string(&self) -> String {
        match (self.optional, self.vec) {
            (false, false) => self.base.clone(),
            (true, false) => format!("Option<{}>", self.base),
            (false, true) => format!("Vec<{}>", self.base),
            (true, true) => format!("Option<Vec<{}>>", self.base),
        }
    }
}

#[derive(Clone, Debug, Serialize, PartialEq, Eq)]
pub struct StructDef {
    pub derive: Option<String>,
    pub name: String,
    pub fields: Vec<FieldDef>,
}

fn parse_type(t: &str) -> Result<(bool, bool, String), String> {
    let t = t.trim();
    let (optional, inner) = match t.strip_prefix("Option<").and_then(|r| r.strip_suffix('>')) {
        Some(i) => (true, i.trim()),
        None => (false, t),
    };
    let (vec, base) = match inner.strip_prefix("Vec<").and_then(|r| r.strip_suffix('>')) {
        Some(i) => (true, i.trim()),
        None => (false, inner),
    };
    if base.is_empty() || base.contains('<') || base.contains('>') || base.contains(' ') || base.contains(',') {
        return Err(format!("unexpected field type `{}`", t));
    }
    Ok((optional, vec, base.to_string()))
}

/// Remove Rust comments (line comments incl. doc comments, nested block comments) the way rustc lexes them, outside
/// string literals. Comments are legal in the rendered source and say nothing about the struct items; a line that held
/// nothing but a comment disappears with its line break. An unterminated block comment is an error (the rest of the
/// source would be swallowed by it).
pub fn strip_comments(src: &str) -> Result<std::borrow::Cow<'_, str>, String> {
    if !src.contains("//") && !src.contains("/*") {
        return Ok(std::borrow::Cow::Borrowed(src));
    }
    let b = src.as_bytes();
    let mut out: Vec<u8> = Vec::with_capacity(b.len());
    // per output line: did a comment start or continue on it?
    let mut touched_lines: Vec<bool> = vec![false];
    let mut i = 0;
    let mut in_str = false;
    while i < b.len() {
        let c = b[i];
        if in_str {
            out.push(c);
            if c == b'\\' && i + 1 < b.len() {
                out.push(b[i + 1]);
                i += 2;
                continue;
            }
            if c == b'"' {
                in_str = false;
            }
            if c == b'\n' {
                touched_lines.push(false);
            }
            i += 1;
            continue;
        }
        if c == b'"' {
            in_str = true;
            out.push(c);
            i += 1;
        } else if c == b'/' && b.get(i + 1) == Some(&b'/') {
            *touched_lines.last_mut().unwrap() = true;
            while i < b.len() && b[i] != b'\n' {
                i += 1;
            }
        } else if c == b'/' && b.get(i + 1) == Some(&b'*') {
            *touched_lines.last_mut().unwrap() = true;
            let mut depth = 1;
            i += 2;
            while depth > 0 {
                if i >= b.len() {
                    return Err("unterminated block comment (block comments nest in Rust)".into());
                }
                if b[i] == b'/' && b.get(i + 1) == Some(&b'*') {
                    depth += 1;
                    i += 2;
                } else if b[i] == b'*' && b.get(i + 1) == Some(&b'/') {
                    depth -= 1;
                    i += 2;
                } else {
                    if b[i] == b'\n' {
                        // a comment spanning lines: the line break inside it goes away with it
                        *touched_lines.last_mut().unwrap() = true;
                    }
                    i += 1;
                }
            }
        } else {
            out.push(c);
            if c == b'\n' {
                touched_lines.push(false);
            }
            i += 1;
        }
    }
    let text = String::from_utf8(out).map_err(|e| format!("comment removal broke UTF-8: {}", e))?;
    let mut kept: Vec<&str> = Vec::new();
    for (k, line) in text.split('\n').enumerate() {
        let touched = touched_lines.get(k).copied().unwrap_or(false);
        if touched && line.trim().is_empty() {
            continue;
        }
        kept.push(if touched { line.trim_end() } else { line });
    }
    let res = kept.join("\n");
    Ok(std::borrow::Cow::Owned(res))
}

/// strict reader of the documented layout (derive must not contain a newline); comments are removed first
pub fn read_lines(src: &str) -> Result<Vec<StructDef>, String> {
    let stripped = strip_comments(src)?;
    let src: &str = &stripped;
    let mut out = Vec::new();
    let lines: Vec<&str> = src.split('\n').collect();
    let mut i = 0;
    // output ends with "}\n\n" => the split yields two trailing empty strings
    while i < lines.len() {
        let mut line = lines[i];
        if line.is_empty() && i + 1 >= lines.len() {
            break;
        }
        let mut derive = None;
        if let Some(rest) = line.strip_prefix("#[derive(") {
            let d = rest.strip_suffix(")]").ok_or_else(|| format!("line {}: bad derive line `{}`", i + 1, line))?;
            derive = Some(d.to_string());
            i += 1;
            line = *lines.get(i).ok_or("eof after derive")?;
        }
        let name = line
            .strip_prefix("pub struct ")
            .and_then(|r| r.strip_suffix(" {"))
            .ok_or_else(|| format!("line {}: expected `pub struct X {{`, got `{}`", i + 1, line))?;
        i += 1;
        let mut fields = Vec::new();
        loop {
            let l = *lines.get(i).ok_or("eof inside struct")?;
            if l == "}" {
                i += 1;
                break;
            }
            let mut rename = None;
            let mut l = l;
            if let Some(rest) = l.strip_prefix("    #[serde(rename = \"") {
                let r = rest.strip_suffix("\")]").ok_or_else(|| format!("line {}: bad rename line `{}`", i + 1, l))?;
                rename = Some(r.to_string());
                i += 1;
                l = *lines.get(i).ok_or("eof after rename")?;
            }
            let body = l
                .strip_prefix("    pub ")
                .and_then(|r| r.strip_suffix(','))
                .ok_or_else(|| format!("line {}: expected field line, got `{}`", i + 1, l))?;
            let (ident, ty) = body.split_once(": ").ok_or_else(|| format!("line {}: no `: ` in field line `{}`", i + 1, l))?;
            let (optional, vec, base) = parse_type(ty).map_err(|e| format!("line {}: {}", i + 1, e))?;
            fields.push(FieldDef { rename, ident: ident.to_string(), optional, vec, base });
            i += 1;
        }
        // blank line after each struct
        match lines.get(i) {
            Some(l) if l.is_empty() => i += 1,
            other => return Err(format!("line {}: expected blank line after struct, got {:?}", i + 1, other)),
        }
        out.push(StructDef { derive, name: name.to_string(), fields });
    }
    if out.is_empty() {
        return Err("no struct in output".into());
    }
    Ok(out)
}

fn syn_type(ty: &syn::Type) -> Result<(bool, bool, String), String> {
    fn path_one(ty: &syn::Type) -> Result<(String, Option<syn::Type>), String> {
        match ty {
            syn::Type::Path(p) if p.qself.is_none() && p.path.leading_colon.is_none() && p.path.segments.len() == 1 => {
                let seg = &p.path.segments[0];
                match &seg.arguments {
                    syn::PathArguments::None => Ok((seg.ident.to_string(), None)),
                    syn::PathArguments::AngleBracketed(ab) if ab.args.len() == 1 => match &ab.args[0] {
                        syn::GenericArgument::Type(t) => Ok((seg.ident.to_string(), Some(t.clone()))),
                        _ => Err("generic argument is not a type".into()),
                    },
                    _ => Err("unexpected path arguments".into()),
                }
            }
            _ => Err("field type is not a simple path".into()),
        }
    }
    let (h, arg) = path_one(ty)?;
    match (h.as_str(), arg) {
        ("Option", Some(inner)) => {
            let (h2, arg2) = path_one(&inner)?;
            match (h2.as_str(), arg2) {
                ("Vec", Some(i2)) => {
                    let (b, a3) = path_one(&i2)?;
                    if a3.is_some() {
                        return Err("nested generics too deep".into());
                    }
                    Ok((true, true, b))
                }
                (_, Some(_)) => Err(format!("unexpected generic `{}` inside Option", h2)),
                (b, None) => Ok((true, false, b.to_string())),
            }
        }
        ("Vec", Some(inner)) => {
            let (b, a2) = path_one(&inner)?;
            if a2.is_some() {
                return Err("unexpected generic inside Vec".into());
            }
            Ok((false, true, b))
        }
        (_, Some(_)) => Err(format!("unexpected generic type `{}`", h)),
        (b, None) => Ok((false, false, b.to_string())),
    }
}

/// whitespace-insensitive reader through syn; also the syntax oracle of C04
pub fn read_syn(src: &str) -> Result<Vec<StructDef>, String> {
    let file = syn::parse_file(src).map_err(|e| format!("syn: {}", e))?;
    if !file.attrs.is_empty() {
        return Err("unexpected inner attributes".into());
    }
    let mut out = Vec::new();
    for item in file.items {
        let st = match item {
            syn::Item::Struct(s) => s,
            other => return Err(format!("item is not a struct: {}", short_item(&other))),
        };
        if !matches!(st.vis, syn::Visibility::Public(_)) {
            return Err(format!("struct {} is not pub", st.ident));
        }
        if !st.generics.params.is_empty() {
            return Err(format!("struct {} has generics", st.ident));
        }
        let mut derive = None;
        for a in &st.attrs {
            if a.path().is_ident("derive") {
                if let syn::Meta::List(l) = &a.meta {
                    derive = Some(l.tokens.to_string());
                } else {
                    return Err("derive is not a list".into());
                }
            } else if a.path().is_ident("doc") {
                // a doc comment
            } else {
                return Err(format!("unexpected attribute on struct {}", st.ident));
            }
        }
        let named = match &st.fields {
            syn::Fields::Named(n) => n,
            _ => return Err(format!("struct {} has no named fields", st.ident)),
        };
        let mut fields = Vec::new();
        for f in &named.named {
            if !matches!(f.vis, syn::Visibility::Public(_)) {
                return Err("field is not pub".into());
            }
            let ident = f.ident.as_ref().ok_or("unnamed field")?.to_string();
            let mut rename = None;
            for a in &f.attrs {
                if a.path().is_ident("doc") {
                    continue;
                }
                if !a.path().is_ident("serde") {
                    return Err(format!("unexpected attribute on field {}", ident));
                }
                let mut found = None;
                a.parse_nested_meta(|m| {
                    if m.path.is_ident("rename") {
                        let v: syn::LitStr = m.value()?.parse()?;
                        found = Some(v.value());
                        Ok(())
                    } else {
                        Err(m.error("unexpected serde attribute"))
                    }
                })
                .map_err(|e| format!("serde attr on {}: {}", ident, e))?;
                if rename.is_some() {
                    return Err(format!("two rename attributes on field {}", ident));
                }
                rename = found;
            }
            let (optional, vec, base) = syn_type(&f.ty).map_err(|e| format!("field {}: {}", ident, e))?;
            fields.push(FieldDef { rename, ident, optional, vec, base });
        }
        out.push(StructDef { derive, name: st.ident.to_string(), fields });
    }
    if out.is_empty() {
        return Err("no struct in output".into());
    }
    Ok(out)
}

fn short_item(i: &syn::Item) -> &'static str {
    match i {
        syn::Item::Enum(_) => "enum",
        syn::Item::Fn(_) => "fn",
        syn::Item::Use(_) => "use",
        syn::Item::Mod(_) => "mod",
        syn::Item::Impl(_) => "impl",
        syn::Item::Type(_) => "type",
        syn::Item::Const(_) => "const",
        syn::Item::Static(_) => "static",
        syn::Item::Trait(_) => "trait",
        syn::Item::Macro(_) => "macro",
        _ => "other",
    }
}

/// both readers must agree on names, fields, renames and types
pub fn read_both(src: &str) -> Result<Vec<StructDef>, String> {
    let a = read_lines(src)?;
    let b = read_syn(src)?;
    if a.len() != b.len() {
        return Err(format!("line reader sees {} structs, syn {}", a.len(), b.len()));
    }
    for (x, y) in a.iter().zip(b.iter()) {
        if x.name != y.name || x.fields != y.fields || x.derive.is_some() != y.derive.is_some() {
            return Err(format!("readers disagree on struct {}: {:?} vs {:?}", x.name, x, y));
        }
    }
    Ok(a)
}

// ---------------------------------------------------------------------------------------
// struct tree

#[derive(Clone, Debug, Serialize)]
pub struct RAttr {
    /// bound name without the attribute prefix
    pub bound: String,
    pub ident: String,
    pub optional: bool,
}

#[derive(Clone, Debug, Serialize)]
pub struct RChild {
    pub bound: String,
    pub ident: String,
    pub optional: bool,
    pub vec: bool,
    pub base: String,
    /// None = String-typed
    pub node: Option<RNode>,
}

#[derive(Clone, Debug, Serialize)]
pub struct RNode {
    pub def_index: usize,
    pub struct_name: String,
    pub attrs: Vec<RAttr>,
    pub text: Option<FieldDef>,
    pub children: Vec<RChild>,
    /// 'a' / 't' / 'c' per field, in rendered order
    pub kinds: String,
}

impl RNode {
    pub fn attr(&self, bound: &str) -> Option<&RAttr> {
        self.attrs.iter().find(|a| a.bound == bound)
    }
    pub fn child(&self, bound: &str) -> Option<&RChild> {
        self.children.iter().find(|c| c.bound == bound)
    }
    pub fn count_structs(&self) -> usize {
        1 + self.children.iter().filter_map(|c| c.node.as_ref()).map(|n| n.count_structs()).sum::<usize>()
    }
}

/// rebuild the tree from the pre-order position of the struct items.
/// `prefix` must be non-empty (quick-xml style) for attribute/child classification.
pub fn build_tree(defs: &[StructDef], prefix: &str, text_id: &str) -> Result<RNode, String> {
    fn go(defs: &[StructDef], idx: &mut usize, prefix: &str, text_id: &str, depth: usize) -> Result<RNode, String> {
        let my = *idx;
        let d = defs.get(my).ok_or_else(|| format!("struct #{} expected by a field but output has only {} structs", my, defs.len()))?;
        *idx += 1;
        let mut n = RNode { def_index: my, struct_name: d.name.clone(), attrs: vec![], text: None, children: vec![], kinds: String::new() };
        for f in &d.fields {
            let b = f.bound();
            if b == text_id {
                if n.text.is_some() {
                    return Err(format!("struct {}: two text fields", d.name));
                }
                if !(f.optional && !f.vec && f.base == "String") {
                    return Err(format!("struct {}: text field has type {}", d.name, f.type_string()));
                }
                n.text = Some(f.clone());
                n.kinds.push('t');
            } else if !prefix.is_empty() && b.starts_with(prefix) {
                if f.vec || f.base != "String" {
                    return Err(format!("struct {}: attribute field {} has type {}", d.name, f.ident, f.type_string()));
                }
                n.attrs.push(RAttr { bound: b[prefix.len()..].to_string(), ident: f.ident.clone(), optional: f.optional });
                n.kinds.push('a');
            } else {
                n.kinds.push('c');
                let node = if f.base == "String" {
                    None
                } else {
                    let sub = go(defs, idx, prefix, text_id, depth + 1)?;
                    if sub.struct_name != f.base {
                        return Err(format!(
                            "struct {}: field {} has type {} but the struct at its pre-order position is {}",
                            d.name, f.ident, f.base, sub.struct_name
                        ));
                    }
                    Some(sub)
                };
                n.children.push(RChild { bound: b.to_string(), ident: f.ident.clone(), optional: f.optional, vec: f.vec, base: f.base.clone(), node });
            }
        }
        Ok(n)
    }
    let mut idx = 0;
    let root = go(defs, &mut idx, prefix, text_id, 0)?;
    if idx != defs.len() {
        return Err(format!("{} struct items are not reachable from the first struct", defs.len() - idx));
    }
    Ok(root)
}

#[cfg(test)]
mod strip_tests {
    use super::*;

    const PLAIN: &str = "#[derive(Serialize, Deserialize)]\npub struct A {\n    #[serde(rename = \"@k\")]\n    pub k: String,\n    pub b: Option<String>,\n}\n\n";

    #[test]
    fn source_without_comments_is_untouched() {
        assert!(matches!(strip_comments(PLAIN).unwrap(), std::borrow::Cow::Borrowed(_)));
        assert_eq!(read_both(PLAIN).unwrap().len(), 1);
    }

    #[test]
    fn doc_comments_are_not_struct_items() {
        let src = "/// generated from a\n/** block\n over lines */\n#[derive(Serialize, Deserialize)]\npub struct A {\n    /// the key // with slashes\n    #[serde(rename = \"@k\")]\n    pub k: String, // trailing\n    /* a /* nested */ one */\n    pub b: Option<String>,\n}\n\n";
        assert_eq!(strip_comments(src).unwrap(), PLAIN);
        let d = read_both(src).unwrap();
        assert_eq!(d.len(), 1);
        assert_eq!(d[0].fields.len(), 2);
    }

    #[test]
    fn slashes_inside_string_literals_stay() {
        let src = "#[derive(Serialize, Deserialize)]\npub struct A {\n    #[serde(rename = \"a//b/*\")]\n    pub k: String,\n}\n\n";
        assert_eq!(strip_comments(src).unwrap(), src);
    }

    #[test]
    fn unterminated_nested_block_comment_is_an_error() {
        let src = "/** served below /api/* */\npub struct A {\n    pub k: String,\n}\n\n";
        assert!(strip_comments(src).is_err());
        assert!(read_both(src).is_err());
        assert!(read_lines(src).is_err());
    }

    #[test]
    fn prose_outside_a_comment_is_still_rejected() {
        let src = "pub struct A {\n    /// unit price,\n       in EUR\n    pub k: String,\n}\n\n";
        assert!(read_lines(src).is_err());
        assert!(read_syn(src).is_err());
    }
}
