use std::time::{Duration, Instant};
use xsgv::crashguard;
use xsgv::runner::{hex, main_replay, main_run, verif_root, write_evidence, write_replay, Failure, Outcome, Property, Stats, Tapes, Tier};

fn seed() -> u64 {
    std::env::var("VERIF_SEED").ok().and_then(|s| s.trim().parse::<i64>().ok()).map(|v| v as u64).unwrap_or(0)
}

fn wait_with_timeout(child: &mut std::process::Child, limit: Option<Duration>) -> Option<std::process::ExitStatus> {
    let start = Instant::now();
    loop {
        match child.try_wait() {
            Ok(Some(s)) => return Some(s),
            Ok(None) => {}
            Err(_) => return None,
        }
        if let Some(l) = limit {
            if start.elapsed() > l {
                let _ = child.kill();
                let _ = child.wait();
                return None;
            }
        }
        std::thread::sleep(Duration::from_millis(50));
    }
}

/// run the worker in a child process so that a crash or hang of the code under test becomes a reported violation
fn supervise(prop: &dyn Property, args: &[String]) -> i32 {
    let exe = std::env::current_exe().expect("current_exe");
    let dir = verif_root().join("work").join(format!("{}-{}", prop.id(), std::process::id()));
    let _ = std::fs::create_dir_all(&dir);
    let is_replay = args.get(2).map(|s| s == "--replay").unwrap_or(false);
    let tier = if args.get(2).map(|s| s == "thorough").unwrap_or(false) { Tier::Thorough } else { Tier::Quick };
    let mut child = std::process::Command::new(&exe).args(&args[1..]).env("XSGV_WORKER", "1").env("XSGV_CRASHDIR", &dir).spawn().expect("spawn worker");
    let status = wait_with_timeout(&mut child, if is_replay { Some(Duration::from_secs(if prop.id() == "C07" { 25 } else { 900 })) } else { None });
    let code = match status {
        None => {
            // only replays have a limit: the saved case does not terminate
            println!("VIOLATION property={} replay={}", prop.id(), args.get(3).cloned().unwrap_or_default());
            println!("  the saved case did not return within 25 s (fails to terminate)");
            let _ = std::fs::remove_dir_all(&dir);
            return 1;
        }
        Some(s) => s,
    };
    let find = |prefix: &str| -> Option<std::path::PathBuf> {
        let mut v: Vec<_> = std::fs::read_dir(&dir).ok()?.filter_map(|e| e.ok()).map(|e| e.path()).filter(|p| p.file_name().map(|n| n.to_string_lossy().starts_with(prefix)).unwrap_or(false)).collect();
        v.sort();
        v.into_iter().next()
    };
    let abnormal = code.code().is_none() || code.code() == Some(crashguard::EXIT_CRASH) || code.code() == Some(crashguard::EXIT_HANG);
    if !abnormal {
        let _ = std::fs::remove_dir_all(&dir);
        return code.code().unwrap_or(2);
    }
    let crash_is_violation = prop.id() == "C07";
    if is_replay {
        let _ = std::fs::remove_dir_all(&dir);
        if crash_is_violation {
            println!("VIOLATION property={} replay={}", prop.id(), args.get(3).cloned().unwrap_or_default());
            println!("  the saved case killed the process ({:?})", code);
            return 1;
        }
        eprintln!("INCONCLUSIVE property={} the saved case killed the worker process ({:?}): resource exhaustion or abort in the code under test; see C07", prop.id(), code);
        return 2;
    }
    let hang = code.code() == Some(crashguard::EXIT_HANG);
    let dump = find(if hang { "hang-" } else { "crash-" }).and_then(|p| crashguard::read_dump(&p));
    let _ = &find;
    let _ = std::fs::remove_dir_all(&dir);
    let (evals, nontrivial, tapes) = match dump {
        Some((e, n, a, b, c, small)) => (e, n, Some(Tapes { a, b, c, small })),
        None => (0, 0, None),
    };
    let tapes = match tapes {
        Some(t) => t,
        None => {
            eprintln!("INCONCLUSIVE property={} worker ended abnormally ({:?}) without a case dump", prop.id(), code);
            return 2;
        }
    };
    let msg = if hang {
        "a case did not return within 20 s (fails to terminate)".to_string()
    } else {
        format!("the process was killed while running a case ({:?}): stack overflow or abort", code)
    };
    if !crash_is_violation {
        let f = Failure::new(format!("worker process died: {}", msg));
        let payload = serde_json::json!({"kind": "tapes", "tapes": {"a": hex(&tapes.a), "b": hex(&tapes.b), "c": hex(&tapes.c), "small": tapes.small}, "decoded": prop.describe(&tapes)});
        let path = write_replay(prop.id(), &f, &payload);
        eprintln!("INCONCLUSIVE property={} {} (not a verdict on this property; the case is saved at {})", prop.id(), msg, path.display());
        return 2;
    }
    let f = Failure::new(msg.clone());
    let payload = serde_json::json!({"kind": "tapes", "tapes": {"a": hex(&tapes.a), "b": hex(&tapes.b), "c": hex(&tapes.c), "small": tapes.small}, "decoded": prop.describe(&tapes)});
    let path = write_replay(prop.id(), &f, &payload);
    if hang {
        // confirm in a fresh process before calling it a violation
        let mut c2 = std::process::Command::new(&exe).arg(prop.id()).arg("--replay").arg(&path).env("XSGV_WORKER", "1").env("XSGV_QUIET", "1").stdout(std::process::Stdio::null()).spawn().expect("spawn replay");
        if wait_with_timeout(&mut c2, Some(Duration::from_secs(20))).is_some() {
            eprintln!("INCONCLUSIVE property={} a case exceeded the watchdog once but returned in time on replay ({})", prop.id(), path.display());
            return 2;
        }
    }
    let mut st = Stats::default();
    st.evaluations = evals.max(1);
    st.nontrivial_enumerated = nontrivial;
    st.samples.push(prop.describe(&tapes));
    let out = Outcome { stats: st, failure: None, wall_s: 0.0 };
    write_evidence(prop, tier, seed(), &out, 1);
    println!("VIOLATION property={} replay={}", prop.id(), path.display());
    println!("  {}", msg);
    1
}

fn main() {
    let args: Vec<String> = std::env::args().collect();
    if args.len() < 3 {
        eprintln!("usage: xsgv <PROPERTY> <quick|thorough> | xsgv <PROPERTY> --replay <file>");
        std::process::exit(2);
    }
    if args[1] == "__render_c05" && args.len() == 5 {
        use std::io::Write;
        let t = Tapes { a: xsgv::runner::unhex(&args[2]), b: xsgv::runner::unhex(&args[3]), c: xsgv::runner::unhex(&args[4]), small: false };
        let out = xsgv::props::c05::render_for_subprocess(&t);
        std::io::stdout().write_all(out.as_bytes()).unwrap();
        return;
    }
    let id = args[1].as_str();
    let prop = match xsgv::props::by_id(id) {
        Some(p) => p,
        None => {
            eprintln!("unknown property {}", id);
            std::process::exit(2);
        }
    };
    let worker = std::env::var("XSGV_WORKER").is_ok();
    if !worker {
        std::process::exit(supervise(prop.as_ref(), &args));
    }
    crashguard::limit_memory(std::env::var("XSGV_MEM_GIB").ok().and_then(|s| s.parse().ok()).unwrap_or(32));
    if let Ok(d) = std::env::var("XSGV_CRASHDIR") {
        // the per-case watchdog is C07's (termination is part of its statement); elsewhere it only guards the run
        crashguard::install(std::path::Path::new(&d), if id == "C07" { 20 } else { 300 });
    }
    let code = if args[2] == "--replay" {
        match args.get(3) {
            Some(p) => main_replay(prop.as_ref(), p),
            None => 2,
        }
    } else {
        let tier = match args[2].as_str() {
            "quick" => Tier::Quick,
            "thorough" => Tier::Thorough,
            _ => {
                eprintln!("tier must be quick or thorough");
                std::process::exit(2);
            }
        };
        main_run(prop.as_ref(), tier, seed())
    };
    std::process::exit(code);
}
