use xsgv::runner::{main_replay, main_run, Tier};

fn main() {
    let args: Vec<String> = std::env::args().collect();
    if args.len() < 3 {
        eprintln!("usage: xsgv <PROPERTY> <quick|thorough> | xsgv <PROPERTY> --replay <file>");
        std::process::exit(2);
    }
    if args[1] == "__render_c05" && args.len() == 5 {
        use std::io::Write;
        let t = xsgv::runner::Tapes { a: xsgv::runner::unhex(&args[2]), b: xsgv::runner::unhex(&args[3]), c: xsgv::runner::unhex(&args[4]) };
        let out = xsgv::props::c05::render_for_subprocess(&t);
        std::io::stdout().write_all(out.as_bytes()).unwrap();
        return;
    }
    let id = args[1].as_str();
    let prop = match xsgv::props::by_id(id) {
        Some(p) => p,
        None => {
            eprintln!("unknown property {}", id);
            std::process::exit(2);
        }
    };
    let seed: u64 = std::env::var("VERIF_SEED").ok().and_then(|s| s.trim().parse::<i64>().ok()).map(|v| v as u64).unwrap_or(0);
    let code = if args[2] == "--replay" {
        match args.get(3) {
            Some(p) => main_replay(prop.as_ref(), p),
            None => 2,
        }
    } else {
        let tier = match args[2].as_str() {
            "quick" => Tier::Quick,
            "thorough" => Tier::Thorough,
            _ => {
                eprintln!("tier must be quick or thorough");
                std::process::exit(2);
            }
        };
        main_run(prop.as_ref(), tier, seed)
    };
    std::process::exit(code);
}
