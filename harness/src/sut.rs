//! Thin adapter to the crate under test (only its public API).

use quick_xml::reader::Reader;
pub use xml_schema_generator::{extend_struct, into_struct, merge_necessity, Element, Necessity, Options, ParserError, SortBy};

pub fn parse_seq(docs: &[Vec<u8>]) -> Result<Element<String>, (usize, ParserError)> {
    let mut root: Option<Element<String>> = None;
    for (i, d) in docs.iter().enumerate() {
        let mut reader = Reader::from_reader(d.as_slice());
        root = Some(match root.take() {
            None => into_struct(&mut reader).map_err(|e| (i, e))?,
            Some(r) => extend_struct(&mut reader, r).map_err(|e| (i, e))?,
        });
    }
    Ok(root.expect("at least one document"))
}

pub fn opts_quick(sort_by_name: bool, derive: &str) -> Options {
    let mut o = Options::quick_xml_de().derive(derive);
    o.sort = if sort_by_name { SortBy::XmlName } else { SortBy::Unsorted };
    o
}

pub fn opts_custom(prefix: &str, text_id: &str, derive: &str, sort_by_name: bool) -> Options {
    // by field assignment on top of a preset, so that a further public field added to Options does not break the harness build
    let mut o = Options::quick_xml_de();
    o.text_identifier = text_id.to_string();
    o.attribute_prefix = prefix.to_string();
    o.derive = derive.to_string();
    o.sort = if sort_by_name { SortBy::XmlName } else { SortBy::Unsorted };
    o
}

/// BufRead that hands out at most `chunk` bytes per fill_buf (C07/C11: "any buffered reader")
pub struct Chunked<'a> {
    pub data: &'a [u8],
    pub pos: usize,
    pub chunk: usize,
}

impl<'a> Chunked<'a> {
    pub fn new(data: &'a [u8], chunk: usize) -> Self {
        Chunked { data, pos: 0, chunk: chunk.max(1) }
    }
}

impl<'a> std::io::Read for Chunked<'a> {
    fn read(&mut self, buf: &mut [u8]) -> std::io::Result<usize> {
        let n = self.chunk.min(self.data.len() - self.pos).min(buf.len());
        buf[..n].copy_from_slice(&self.data[self.pos..self.pos + n]);
        self.pos += n;
        Ok(n)
    }
}

impl<'a> std::io::BufRead for Chunked<'a> {
    fn fill_buf(&mut self) -> std::io::Result<&[u8]> {
        let end = (self.pos + self.chunk).min(self.data.len());
        Ok(&self.data[self.pos..end])
    }
    fn consume(&mut self, amt: usize) {
        self.pos = (self.pos + amt).min(self.data.len());
    }
}

#[derive(Clone, Copy, Debug)]
pub enum ReaderKind {
    Slice,
    /// std BufReader with this capacity
    Buf(usize),
    /// chunked BufRead
    Chunk(usize),
}

#[derive(Clone, Copy, Debug)]
pub struct ReaderCfg {
    pub kind: ReaderKind,
    pub expand_empty: bool,
    pub trim_text: bool,
    pub check_end_names: bool,
}

impl ReaderCfg {
    pub fn default_slice() -> Self {
        ReaderCfg { kind: ReaderKind::Slice, expand_empty: false, trim_text: false, check_end_names: true }
    }
}

fn apply_cfg<R>(r: &mut Reader<R>, cfg: &ReaderCfg) {
    let c = r.config_mut();
    c.expand_empty_elements = cfg.expand_empty;
    c.trim_text(cfg.trim_text);
    c.check_end_names = cfg.check_end_names;
}

/// parse (first document) or extend (root given) through the configured reader
pub fn parse_with(doc: &[u8], root: Option<Element<String>>, cfg: &ReaderCfg) -> Result<Element<String>, ParserError> {
    macro_rules! go {
        ($reader:expr) => {{
            let mut reader = $reader;
            apply_cfg(&mut reader, cfg);
            match root {
                None => into_struct(&mut reader),
                Some(r) => extend_struct(&mut reader, r),
            }
        }};
    }
    match cfg.kind {
        ReaderKind::Slice => go!(Reader::from_reader(doc)),
        ReaderKind::Buf(n) => go!(Reader::from_reader(std::io::BufReader::with_capacity(n.max(1), doc))),
        ReaderKind::Chunk(n) => go!(Reader::from_reader(Chunked::new(doc, n))),
    }
}

pub fn parse_seq_with(docs: &[Vec<u8>], cfg: &ReaderCfg) -> Result<Element<String>, (usize, ParserError)> {
    let mut root: Option<Element<String>> = None;
    for (i, d) in docs.iter().enumerate() {
        root = Some(parse_with(d, root.take(), cfg).map_err(|e| (i, e))?);
    }
    Ok(root.expect("at least one document"))
}
