//! Thin adapter to the crate under test (only its public API).

use quick_xml::reader::Reader;
pub use xml_schema_generator::{extend_struct, into_struct, merge_necessity, Element, Necessity, Options, ParserError, SortBy};

pub fn parse_seq(docs: &[Vec<u8>]) -> Result<Element<String>, (usize, ParserError)> {
    let mut root: Option<Element<String>> = None;
    for (i, d) in docs.iter().enumerate() {
        let mut reader = Reader::from_reader(d.as_slice());
        root = Some(match root.take() {
            None => into_struct(&mut reader).map_err(|e| (i, e))?,
            Some(r) => extend_struct(&mut reader, r).map_err(|e| (i, e))?,
        });
    }
    Ok(root.expect("at least one document"))
}

pub fn opts_quick(sort_by_name: bool, derive: &str) -> Options {
    let mut o = Options::quick_xml_de().derive(derive);
    o.sort = if sort_by_name { SortBy::XmlName } else { SortBy::Unsorted };
    o
}

pub fn opts_custom(prefix: &str, text_id: &str, derive: &str, sort_by_name: bool) -> Options {
    Options {
        text_identifier: text_id.to_string(),
        attribute_prefix: prefix.to_string(),
        derive: derive.to_string(),
        sort: if sort_by_name { SortBy::XmlName } else { SortBy::Unsorted },
    }
}
