//! Sharded proptest driver, replay files, evidence files, known-finding handling (DESIGN.md §3.4).

use proptest::collection::vec;
use proptest::prelude::*;
use proptest::test_runner::{Config, RngAlgorithm, RngSeed, TestCaseError, TestError, TestRunner};
use serde_json::{json, Value};
use std::collections::{BTreeMap, HashSet};
use std::panic::{catch_unwind, AssertUnwindSafe};
use std::sync::atomic::{AtomicBool, Ordering};
use std::sync::Mutex;
use std::time::Instant;

#[derive(Clone, Copy, PartialEq, Eq, Debug)]
pub enum Tier {
    Quick,
    Thorough,
}

impl Tier {
    pub fn name(&self) -> &'static str {
        match self {
            Tier::Quick => "quick",
            Tier::Thorough => "thorough",
        }
    }
}

#[derive(Clone, Debug, Default)]
pub struct Tapes {
    pub a: Vec<u8>,
    pub b: Vec<u8>,
    pub c: Vec<u8>,
    /// first phase of a run: short tapes and a domain without the size-amplifying modes (chains, wide,
    /// amplify, long sequences), so that simple failures are found before any expensive case runs
    pub small: bool,
}

#[derive(Clone, Debug)]
pub struct Failure {
    pub msg: String,
    /// root-cause signature, matched against KNOWN_FINDINGS.txt `open:` lines
    pub signature: Option<String>,
    pub detail: Value,
}

impl Failure {
    pub fn new(msg: impl Into<String>) -> Failure {
        Failure { msg: msg.into(), signature: None, detail: Value::Null }
    }
    pub fn with_detail(mut self, d: Value) -> Failure {
        self.detail = d;
        self
    }
    pub fn with_signature(mut self, s: &str) -> Failure {
        self.signature = Some(s.to_string());
        self
    }
}

#[derive(Default)]
pub struct Stats {
    pub evaluations: u64,
    pub counters: BTreeMap<String, u64>,
    pub nontrivial: HashSet<u64>,
    pub samples: Vec<Value>,
    pub known: BTreeMap<String, (u64, Value)>,
    pub frozen: bool,
    /// non-trivial cases counted by an exhaustive enumeration (distinct by construction)
    pub nontrivial_enumerated: u64,
}

impl Stats {
    pub fn count(&mut self, key: &str) {
        if !self.frozen {
            *self.counters.entry(key.to_string()).or_insert(0) += 1;
        }
    }
    pub fn add(&mut self, key: &str, n: u64) {
        if !self.frozen {
            *self.counters.entry(key.to_string()).or_insert(0) += n;
        }
    }
    pub fn nontrivial(&mut self, hash: u64) {
        if !self.frozen {
            self.nontrivial.insert(hash);
        }
    }
    pub fn sample(&mut self, f: impl FnOnce() -> Value) {
        if !self.frozen && self.samples.len() < 3 {
            self.samples.push(f());
        }
    }
    pub fn distinct_nontrivial(&self) -> u64 {
        self.nontrivial.len() as u64 + self.nontrivial_enumerated
    }
    pub fn merge(&mut self, o: Stats) {
        self.evaluations += o.evaluations;
        for (k, v) in o.counters {
            *self.counters.entry(k).or_insert(0) += v;
        }
        self.nontrivial.extend(o.nontrivial);
        self.nontrivial_enumerated += o.nontrivial_enumerated;
        for s in o.samples {
            if self.samples.len() < 8 {
                self.samples.push(s);
            }
        }
        for (k, (n, w)) in o.known {
            let e = self.known.entry(k).or_insert((0, w));
            e.0 += n;
        }
    }
}

pub fn hash_of<T: std::hash::Hash>(t: &T) -> u64 {
    // FNV-1a over the std Hash stream with a fixed-key hasher: deterministic across runs
    struct Fnv(u64);
    impl std::hash::Hasher for Fnv {
        fn finish(&self) -> u64 {
            self.0
        }
        fn write(&mut self, bytes: &[u8]) {
            for b in bytes {
                self.0 ^= *b as u64;
                self.0 = self.0.wrapping_mul(0x100000001b3);
            }
        }
    }
    let mut h = Fnv(0xcbf29ce484222325);
    t.hash(&mut h);
    std::hash::Hasher::finish(&h)
}

pub trait Property: Sync {
    fn id(&self) -> &'static str;
    /// maximal tape lengths (structure, surface/options, second surface)
    fn tape_sizes(&self) -> (usize, usize, usize);
    fn cases(&self, tier: Tier) -> u64;
    fn check(&self, tapes: &Tapes, st: &mut Stats) -> Result<(), Failure>;
    fn rule(&self) -> String;
    fn assumptions(&self) -> Vec<String>;
    /// decoded case for replay files
    fn describe(&self, tapes: &Tapes) -> Value;
    /// non-proptest part (exhaustive enumerations, regression corpus, subprocess slices)
    fn extra(&self, _tier: Tier, _seed: u64, _st: &mut Stats) -> Result<(), (Failure, Value)> {
        Ok(())
    }
    fn replay_custom(&self, _payload: &Value) -> Result<(), Failure> {
        Err(Failure::new("custom replay not supported for this property"))
    }
    /// minimum class counts a quick run must reach (generator health), else exit 2
    fn health(&self, _tier: Tier) -> Vec<(&'static str, u64)> {
        vec![]
    }
    fn stack_mib(&self) -> usize {
        16
    }
    fn extra_coverage(&self, _st: &Stats) -> Value {
        Value::Null
    }
    fn exhaustive(&self) -> bool {
        false
    }
}

// ---------------------------------------------------------------------------------------
// known findings

#[derive(Clone, Debug)]
pub struct KnownFinding {
    pub property: String,
    pub signature: String,
    pub what: String,
}

pub fn verif_root() -> std::path::PathBuf {
    std::env::var("XSGV_ROOT").map(std::path::PathBuf::from).unwrap_or_else(|_| std::path::PathBuf::from("/verif"))
}

pub fn load_known() -> Vec<KnownFinding> {
    let p = verif_root().join("KNOWN_FINDINGS.txt");
    let mut out = Vec::new();
    if let Ok(s) = std::fs::read_to_string(p) {
        for line in s.lines() {
            let line = line.trim();
            if let Some(rest) = line.strip_prefix("open:") {
                let (head, what) = rest.split_once("::").unwrap_or((rest, ""));
                let mut prop = String::new();
                let mut sig = String::new();
                for tok in head.split_whitespace() {
                    if let Some(v) = tok.strip_prefix("property=") {
                        prop = v.to_string();
                    }
                    if let Some(v) = tok.strip_prefix("signature=") {
                        sig = v.to_string();
                    }
                }
                if !prop.is_empty() && !sig.is_empty() {
                    out.push(KnownFinding { property: prop, signature: sig, what: what.trim().to_string() });
                }
            }
        }
    }
    out
}

// ---------------------------------------------------------------------------------------

fn mix(seed: u64, id: &str, shard: u64) -> [u8; 32] {
    let mut s = seed ^ 0x9e3779b97f4a7c15;
    for b in id.bytes() {
        s = (s ^ b as u64).wrapping_mul(0x100000001b3);
    }
    s = s.wrapping_add(shard.wrapping_mul(0xbf58476d1ce4e5b9));
    let mut out = [0u8; 32];
    for chunk in out.chunks_mut(8) {
        // splitmix64
        s = s.wrapping_add(0x9e3779b97f4a7c15);
        let mut z = s;
        z = (z ^ (z >> 30)).wrapping_mul(0xbf58476d1ce4e5b9);
        z = (z ^ (z >> 27)).wrapping_mul(0x94d049bb133111eb);
        z ^= z >> 31;
        chunk.copy_from_slice(&z.to_le_bytes());
    }
    out
}

pub fn panic_message(p: Box<dyn std::any::Any + Send>) -> String {
    if let Some(s) = p.downcast_ref::<&str>() {
        s.to_string()
    } else if let Some(s) = p.downcast_ref::<String>() {
        s.clone()
    } else {
        "non-string panic payload".to_string()
    }
}

pub fn run_guarded(prop: &dyn Property, tapes: &Tapes, st: &mut Stats) -> Result<(), Failure> {
    match catch_unwind(AssertUnwindSafe(|| prop.check(tapes, st))) {
        Ok(r) => r,
        Err(p) => Err(Failure::new(format!("panic while checking: {}", panic_message(p))).with_signature("panic")),
    }
}

/// deterministic list of tapes for the non-proptest parts (subprocess slices)
pub fn gen_tapes(prop: &dyn Property, seed: u64, n: usize) -> Vec<Tapes> {
    use proptest::strategy::ValueTree;
    let (na, nb, nc) = prop.tape_sizes();
    let cfg = Config { failure_persistence: None, ..Config::default() };
    let rng = proptest::test_runner::TestRng::from_seed(RngAlgorithm::ChaCha, &mix(seed, prop.id(), 0xffff));
    let mut runner = TestRunner::new_with_rng(cfg, rng);
    let strat = (vec(any::<u8>(), 0..=na), vec(any::<u8>(), 0..=nb), vec(any::<u8>(), 0..=nc));
    (0..n)
        .map(|_| {
            let (a, b, c) = strat.new_tree(&mut runner).expect("new_tree").current();
            Tapes { a, b, c, small: false }
        })
        .collect()
}

pub struct Outcome {
    pub stats: Stats,
    pub failure: Option<(Failure, Value)>, // failure + replay payload
    pub wall_s: f64,
}

fn tapes_json(t: &Tapes) -> Value {
    json!({"a": hex(&t.a), "b": hex(&t.b), "c": hex(&t.c), "small": t.small})
}

pub fn hex(b: &[u8]) -> String {
    let mut s = String::with_capacity(b.len() * 2);
    for x in b {
        s.push_str(&format!("{:02x}", x));
    }
    s
}

pub fn unhex(s: &str) -> Vec<u8> {
    (0..s.len() / 2).map(|i| u8::from_str_radix(&s[2 * i..2 * i + 2], 16).unwrap_or(0)).collect()
}

pub fn run_property(prop: &dyn Property, tier: Tier, seed: u64) -> Outcome {
    let start = Instant::now();
    let known: Vec<KnownFinding> = load_known().into_iter().filter(|k| k.property == prop.id()).collect();
    let shards: u64 = std::env::var("XSGV_SHARDS").ok().and_then(|s| s.parse().ok()).unwrap_or(16);
    let total = std::env::var("XSGV_CASES").ok().and_then(|s| s.parse().ok()).unwrap_or_else(|| prop.cases(tier));
    let per = (total + shards - 1) / shards;
    let stop = AtomicBool::new(false);
    let merged = Mutex::new(Stats::default());
    let first_failure: Mutex<Option<(Failure, Value)>> = Mutex::new(None);
    let (na, nb, nc) = prop.tape_sizes();

    std::panic::set_hook(Box::new(|_| {}));
    std::thread::scope(|scope| {
        for shard in 0..shards {
            let stop = &stop;
            let merged = &merged;
            let first_failure = &first_failure;
            let known = &known;
            std::thread::Builder::new()
                .stack_size(prop.stack_mib() << 20)
                .spawn_scoped(scope, move || {
                    if per == 0 {
                        return;
                    }
                    let mut st = Stats::default();
                    let cfg = Config {
                        cases: 1,
                        failure_persistence: None,
                        rng_algorithm: RngAlgorithm::ChaCha,
                        rng_seed: RngSeed::Fixed(0),
                        max_shrink_iters: 6000,
                        max_global_rejects: 0,
                        verbose: 0,
                        ..Config::default()
                    };
                    // phase 0: a fifth of the cases with short tapes and the small domain; phase 1: the rest, full size
                    let last_fail: std::cell::RefCell<Option<Failure>> = std::cell::RefCell::new(None);
                    let stref = std::cell::RefCell::new(&mut st);
                    for phase in 0..2u64 {
                        if stop.load(Ordering::Relaxed) {
                            break;
                        }
                        let small = phase == 0;
                        let cases = if small { (per / 5).max(1) } else { per - (per / 5).max(1).min(per) };
                        if cases == 0 {
                            continue;
                        }
                        let cfg = Config { cases: cases as u32, ..cfg.clone() };
                        let rng = proptest::test_runner::TestRng::from_seed(RngAlgorithm::ChaCha, &mix(seed, prop.id(), shard * 2 + phase));
                        let mut runner = TestRunner::new_with_rng(cfg, rng);
                        let (la, lb, lc) = if small { ((na / 6).max(8).min(na), (nb / 6).max(8).min(nb), nc) } else { (na, nb, nc) };
                        let strat = (vec(any::<u8>(), 0..=la), vec(any::<u8>(), 0..=lb), vec(any::<u8>(), 0..=lc));
                        let res = runner.run(&strat, |(a, b, c)| {
                            let mut st = stref.borrow_mut();
                            if stop.load(Ordering::Relaxed) && !st.frozen {
                                return Ok(());
                            }
                            let tapes = Tapes { a, b, c, small };
                            if !st.frozen {
                                st.evaluations += 1;
                            }
                            crate::crashguard::begin_case(&tapes.a, &tapes.b, &tapes.c, small);
                            let outcome = run_guarded(prop, &tapes, &mut st);
                            crate::crashguard::end_case();
                            if crate::crashguard::enabled() {
                                crate::crashguard::EVALS.fetch_add(1, Ordering::Relaxed);
                                crate::crashguard::NONTRIVIAL.store(st.nontrivial.len() as u64, Ordering::Relaxed);
                            }
                            match outcome {
                                Ok(()) => Ok(()),
                                Err(f) => {
                                    if let Some(sig) = &f.signature {
                                        if known.iter().any(|k| &k.signature == sig) {
                                            if !st.frozen {
                                                let e = st.known.entry(sig.clone()).or_insert((0, json!({"tapes": tapes_json(&tapes), "message": f.msg})));
                                                e.0 += 1;
                                            }
                                            return Ok(());
                                        }
                                    }
                                    st.frozen = true;
                                    let m = f.msg.clone();
                                    *last_fail.borrow_mut() = Some(f);
                                    Err(TestCaseError::fail(m))
                                }
                            }
                        });
                        if let Err(TestError::Fail(_, (a, b, c))) = res {
                            stop.store(true, Ordering::Relaxed);
                            let tapes = Tapes { a, b, c, small };
                            // re-run the shrunk case to obtain its own failure record
                            let mut scratch = Stats::default();
                            scratch.frozen = true;
                            let f = match run_guarded(prop, &tapes, &mut scratch) {
                                Err(f) => f,
                                Ok(()) => last_fail.borrow_mut().take().unwrap_or_else(|| Failure::new("failure did not reproduce after shrinking")),
                            };
                            let payload = json!({"kind": "tapes", "tapes": tapes_json(&tapes), "decoded": prop.describe(&tapes)});
                            let mut ff = first_failure.lock().unwrap();
                            if ff.is_none() {
                                *ff = Some((f, payload));
                            }
                            break;
                        } else if let Err(TestError::Abort(r)) = res {
                            let mut ff = first_failure.lock().unwrap();
                            if ff.is_none() {
                                *ff = Some((Failure::new(format!("proptest aborted: {}", r)).with_signature("infrastructure"), Value::Null));
                            }
                            break;
                        }
                    }
                    drop(stref);
                    st.frozen = false;
                    merged.lock().unwrap().merge(st);
                })
                .expect("spawn");
        }
    });
    let mut stats = merged.into_inner().unwrap();
    let mut failure = first_failure.into_inner().unwrap();
    if failure.is_none() {
        // non-proptest part, on a thread with the same stack size
        let res = std::thread::scope(|scope| {
            std::thread::Builder::new()
                .stack_size(prop.stack_mib() << 20)
                .spawn_scoped(scope, || {
                    let mut st = Stats::default();
                    let r = catch_unwind(AssertUnwindSafe(|| prop.extra(tier, seed, &mut st)));
                    (st, r)
                })
                .expect("spawn")
                .join()
                .expect("join")
        });
        let (st, r) = res;
        stats.merge(st);
        match r {
            Ok(Ok(())) => {}
            Ok(Err((f, payload))) => {
                let is_known = f.signature.as_ref().map(|s| known.iter().any(|k| &k.signature == s)).unwrap_or(false);
                if is_known {
                    let sig = f.signature.clone().unwrap();
                    let e = stats.known.entry(sig).or_insert((0, json!({"payload": payload, "message": f.msg})));
                    e.0 += 1;
                } else {
                    failure = Some((f, json!({"kind": "custom", "payload": payload})));
                }
            }
            Err(p) => failure = Some((Failure::new(format!("panic in extra(): {}", panic_message(p))).with_signature("panic"), Value::Null)),
        }
    }
    let _ = std::panic::take_hook();
    Outcome { stats, failure, wall_s: start.elapsed().as_secs_f64() }
}

pub fn write_replay(prop_id: &str, f: &Failure, payload: &Value) -> std::path::PathBuf {
    let dir = verif_root().join("replays").join(prop_id);
    let _ = std::fs::create_dir_all(&dir);
    let body = json!({
        "property": prop_id,
        "message": f.msg,
        "signature": f.signature,
        "detail": f.detail,
        "replay": payload,
    });
    let text = serde_json::to_string_pretty(&body).unwrap();
    let h = hash_of(&text);
    let path = dir.join(format!("{:016x}.json", h));
    let _ = std::fs::write(&path, text);
    path
}

pub fn write_evidence(prop: &dyn Property, tier: Tier, seed: u64, out: &Outcome, violations: u64) {
    let st = &out.stats;
    let mut coverage = serde_json::Map::new();
    coverage.insert("evaluations".into(), json!(st.evaluations));
    coverage.insert("distinct_nontrivial".into(), json!(st.distinct_nontrivial()));
    let mut rule = prop.rule();
    if let Some(n) = st.counters.get("big_families") {
        rule.push_str(&format!(
            " In addition {} enumerated document sequences beyond the small scope, sized around limits a maintainer might introduce (n in {:?}): the threshold family of C03 for each n, n siblings whose names differ only in separators (n colliding struct names and field identifiers, also spread over two documents), n known attributes or children followed by six new ones at once (behind, in front, in a second document), chains of nesting depth n (distinct names, one name, alternating names; a text leaf and an attribute at the bottom, a second document adding a sibling there), and a child repeated after n other children.",
            n,
            crate::props::smallscope::BIG_SIZES
        ));
    }
    coverage.insert("rule".into(), json!(rule));
    coverage.insert("samples".into(), json!(st.samples));
    coverage.insert("classes".into(), json!(st.counters));
    coverage.insert("exhaustive".into(), json!(prop.exhaustive()));
    let known: BTreeMap<String, Value> =
        st.known.iter().map(|(k, (n, w))| (k.clone(), json!({"occurrences": n, "first_witness": w}))).collect();
    coverage.insert("known_findings_hit".into(), json!(known));
    if let Value::Object(m) = prop.extra_coverage(st) {
        for (k, v) in m {
            coverage.insert(k, v);
        }
    }
    let ev = json!({
        "property_id": prop.id(),
        "tier": tier.name(),
        "seed": seed,
        "level": "exploration",
        "coverage": coverage,
        "assumptions": prop.assumptions(),
        "wall_s": out.wall_s,
        "violations": violations,
    });
    let dir = verif_root().join("evidence");
    let _ = std::fs::create_dir_all(&dir);
    let _ = std::fs::write(dir.join(format!("{}.json", prop.id())), serde_json::to_string_pretty(&ev).unwrap());
}

/// run, report, write evidence; returns the process exit code
pub fn main_run(prop: &dyn Property, tier: Tier, seed: u64) -> i32 {
    if tier == Tier::Thorough {
        std::env::set_var("XSGV_TIER_THOROUGH", "1");
    }
    let out = run_property(prop, tier, seed);
    let known = load_known();
    for (sig, (n, _)) in &out.stats.known {
        let what = known.iter().find(|k| k.property == prop.id() && &k.signature == sig).map(|k| k.what.clone()).unwrap_or_default();
        println!("KNOWN-FINDING: property={} signature={} occurrences={} {}", prop.id(), sig, n, what);
    }
    match &out.failure {
        Some((f, payload)) => {
            if f.signature.as_deref() == Some("infrastructure") {
                eprintln!("INCONCLUSIVE property={} {}", prop.id(), f.msg);
                write_evidence(prop, tier, seed, &out, 0);
                return 2;
            }
            let path = write_replay(prop.id(), f, payload);
            write_evidence(prop, tier, seed, &out, 1);
            println!("VIOLATION property={} replay={}", prop.id(), path.display());
            println!("  {}", f.msg.replace('\n', "\n  "));
            1
        }
        None => {
            write_evidence(prop, tier, seed, &out, 0);
            // generator health: a vacuous run is inconclusive, not a pass
            let mut bad = Vec::new();
            for (k, min) in prop.health(tier) {
                let have = if k == "nontrivial" { out.stats.distinct_nontrivial() } else { out.stats.counters.get(k).copied().unwrap_or(0) };
                if have < min {
                    bad.push(format!("{}={} (<{})", k, have, min));
                }
            }
            if !bad.is_empty() && std::env::var("XSGV_CASES").is_err() {
                eprintln!("INCONCLUSIVE property={} generator health: {}", prop.id(), bad.join(", "));
                return 2;
            }
            println!(
                "OK property={} tier={} seed={} evaluations={} distinct_nontrivial={} wall_s={:.1}",
                prop.id(),
                tier.name(),
                seed,
                out.stats.evaluations,
                out.stats.distinct_nontrivial(),
                out.wall_s
            );
            0
        }
    }
}

pub fn main_replay(prop: &dyn Property, path: &str) -> i32 {
    let text = match std::fs::read_to_string(path) {
        Ok(t) => t,
        Err(e) => {
            eprintln!("cannot read {}: {}", path, e);
            return 2;
        }
    };
    let v: Value = match serde_json::from_str(&text) {
        Ok(v) => v,
        Err(e) => {
            eprintln!("bad replay file: {}", e);
            return 2;
        }
    };
    let r = &v["replay"];
    let res = if r["kind"] == "tapes" {
        let t = &r["tapes"];
        let tapes = Tapes {
            a: unhex(t["a"].as_str().unwrap_or("")),
            b: unhex(t["b"].as_str().unwrap_or("")),
            c: unhex(t["c"].as_str().unwrap_or("")),
            small: t["small"].as_bool().unwrap_or(false),
        };
        let mut st = Stats::default();
        st.frozen = true;
        std::panic::set_hook(Box::new(|_| {}));
        let r = std::thread::scope(|scope| {
            std::thread::Builder::new()
                .stack_size(prop.stack_mib() << 20)
                .spawn_scoped(scope, || {
                    crate::crashguard::begin_case(&tapes.a, &tapes.b, &tapes.c, tapes.small);
                    let r = run_guarded(prop, &tapes, &mut st);
                    crate::crashguard::end_case();
                    r
                })
                .expect("spawn")
                .join()
                .expect("join")
        });
        let _ = std::panic::take_hook();
        r
    } else {
        prop.replay_custom(&r["payload"])
    };
    match res {
        Ok(()) => {
            println!("REPLAY-OK property={} {}", prop.id(), path);
            0
        }
        Err(f) => {
            let known = load_known();
            if let Some(sig) = &f.signature {
                if let Some(k) = known.iter().find(|k| k.property == prop.id() && &k.signature == sig) {
                    println!("KNOWN-FINDING: property={} signature={} {}", prop.id(), sig, k.what);
                    return 0;
                }
            }
            println!("VIOLATION property={} replay={}", prop.id(), path);
            println!("  {}", f.msg.replace('\n', "\n  "));
            1
        }
    }
}
