#![no_main]
// Byte-level target for C07 (no panic/abort/hang) with the C08 oracle inside (exact error verdict).
use libfuzzer_sys::fuzz_target;

fuzz_target!(|data: &[u8]| {
    if let Err(e) = xsgv::fuzzglue::bytes_target(data) {
        panic!("{}", e);
    }
});
