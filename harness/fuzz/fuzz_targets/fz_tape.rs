#![no_main]
// Structure-aware target: the input is a choice tape decoded into a document sequence; oracles of
// C03 (reference inference), C01 (validity), C09 (orders) and C11 (two surfaces) run inside.
use libfuzzer_sys::fuzz_target;

fuzz_target!(|data: &[u8]| {
    if let Err(e) = xsgv::fuzzglue::tape_target(data) {
        panic!("{}", e);
    }
});
