// Value-tree serializer used inside the generated test programs of C02/C13: turns any value of the
// generated struct types into a JSON description keyed by the *serde* field names, so the harness can
// compare the deserialized value with the source document without touching the derive list.
#![allow(dead_code)]
use serde::ser::{self, Serialize};

#[derive(Debug)]
pub struct E(String);
impl std::fmt::Display for E {
    fn fmt(&self, f: &mut std::fmt::Formatter<'_>) -> std::fmt::Result {
        f.write_str(&self.0)
    }
}
impl std::error::Error for E {}
impl ser::Error for E {
    fn custom<T: std::fmt::Display>(msg: T) -> Self {
        E(msg.to_string())
    }
}

fn esc(s: &str, out: &mut String) {
    out.push('"');
    for c in s.chars() {
        match c {
            '"' => out.push_str("\\\""),
            '\\' => out.push_str("\\\\"),
            '\n' => out.push_str("\\n"),
            '\r' => out.push_str("\\r"),
            '\t' => out.push_str("\\t"),
            c if (c as u32) < 0x20 => out.push_str(&format!("\\u{:04x}", c as u32)),
            c => out.push(c),
        }
    }
    out.push('"');
}

pub struct S;
pub struct Seq(Vec<String>);
pub struct St(&'static str, Vec<(String, String)>);

pub fn to_string<T: Serialize>(v: &T) -> String {
    match v.serialize(S) {
        Ok(s) => s,
        Err(e) => format!("{{\"o\":\"serialize error {}\"}}", e.0.replace('"', "'")),
    }
}

fn other(s: String) -> Result<String, E> {
    let mut o = String::from("{\"o\":");
    esc(&s, &mut o);
    o.push('}');
    Ok(o)
}

impl ser::Serializer for S {
    type Ok = String;
    type Error = E;
    type SerializeSeq = Seq;
    type SerializeTuple = Seq;
    type SerializeTupleStruct = Seq;
    type SerializeTupleVariant = Seq;
    type SerializeMap = Seq;
    type SerializeStruct = St;
    type SerializeStructVariant = St;
    fn serialize_bool(self, v: bool) -> Result<String, E> { other(v.to_string()) }
    fn serialize_i8(self, v: i8) -> Result<String, E> { other(v.to_string()) }
    fn serialize_i16(self, v: i16) -> Result<String, E> { other(v.to_string()) }
    fn serialize_i32(self, v: i32) -> Result<String, E> { other(v.to_string()) }
    fn serialize_i64(self, v: i64) -> Result<String, E> { other(v.to_string()) }
    fn serialize_u8(self, v: u8) -> Result<String, E> { other(v.to_string()) }
    fn serialize_u16(self, v: u16) -> Result<String, E> { other(v.to_string()) }
    fn serialize_u32(self, v: u32) -> Result<String, E> { other(v.to_string()) }
    fn serialize_u64(self, v: u64) -> Result<String, E> { other(v.to_string()) }
    fn serialize_f32(self, v: f32) -> Result<String, E> { other(v.to_string()) }
    fn serialize_f64(self, v: f64) -> Result<String, E> { other(v.to_string()) }
    fn serialize_char(self, v: char) -> Result<String, E> { other(v.to_string()) }
    fn serialize_str(self, v: &str) -> Result<String, E> {
        let mut o = String::new();
        esc(v, &mut o);
        Ok(o)
    }
    fn serialize_bytes(self, v: &[u8]) -> Result<String, E> { other(format!("{:?}", v)) }
    fn serialize_none(self) -> Result<String, E> { Ok("null".into()) }
    fn serialize_some<T: ?Sized + Serialize>(self, v: &T) -> Result<String, E> { v.serialize(S) }
    fn serialize_unit(self) -> Result<String, E> { Ok("{\"u\":0}".into()) }
    fn serialize_unit_struct(self, _n: &'static str) -> Result<String, E> { Ok("{\"u\":0}".into()) }
    fn serialize_unit_variant(self, _n: &'static str, _i: u32, v: &'static str) -> Result<String, E> { other(v.to_string()) }
    fn serialize_newtype_struct<T: ?Sized + Serialize>(self, _n: &'static str, v: &T) -> Result<String, E> { v.serialize(S) }
    fn serialize_newtype_variant<T: ?Sized + Serialize>(self, _n: &'static str, _i: u32, _v: &'static str, v: &T) -> Result<String, E> { v.serialize(S) }
    fn serialize_seq(self, _l: Option<usize>) -> Result<Seq, E> { Ok(Seq(vec![])) }
    fn serialize_tuple(self, _l: usize) -> Result<Seq, E> { Ok(Seq(vec![])) }
    fn serialize_tuple_struct(self, _n: &'static str, _l: usize) -> Result<Seq, E> { Ok(Seq(vec![])) }
    fn serialize_tuple_variant(self, _n: &'static str, _i: u32, _v: &'static str, _l: usize) -> Result<Seq, E> { Ok(Seq(vec![])) }
    fn serialize_map(self, _l: Option<usize>) -> Result<Seq, E> { Ok(Seq(vec![])) }
    fn serialize_struct(self, n: &'static str, _l: usize) -> Result<St, E> { Ok(St(n, vec![])) }
    fn serialize_struct_variant(self, n: &'static str, _i: u32, _v: &'static str, _l: usize) -> Result<St, E> { Ok(St(n, vec![])) }
}

fn seq_end(s: Seq) -> Result<String, E> {
    Ok(format!("{{\"q\":[{}]}}", s.0.join(",")))
}
impl ser::SerializeSeq for Seq {
    type Ok = String;
    type Error = E;
    fn serialize_element<T: ?Sized + Serialize>(&mut self, v: &T) -> Result<(), E> { self.0.push(v.serialize(S)?); Ok(()) }
    fn end(self) -> Result<String, E> { seq_end(self) }
}
impl ser::SerializeTuple for Seq {
    type Ok = String;
    type Error = E;
    fn serialize_element<T: ?Sized + Serialize>(&mut self, v: &T) -> Result<(), E> { self.0.push(v.serialize(S)?); Ok(()) }
    fn end(self) -> Result<String, E> { seq_end(self) }
}
impl ser::SerializeTupleStruct for Seq {
    type Ok = String;
    type Error = E;
    fn serialize_field<T: ?Sized + Serialize>(&mut self, v: &T) -> Result<(), E> { self.0.push(v.serialize(S)?); Ok(()) }
    fn end(self) -> Result<String, E> { seq_end(self) }
}
impl ser::SerializeTupleVariant for Seq {
    type Ok = String;
    type Error = E;
    fn serialize_field<T: ?Sized + Serialize>(&mut self, v: &T) -> Result<(), E> { self.0.push(v.serialize(S)?); Ok(()) }
    fn end(self) -> Result<String, E> { seq_end(self) }
}
impl ser::SerializeMap for Seq {
    type Ok = String;
    type Error = E;
    fn serialize_key<T: ?Sized + Serialize>(&mut self, v: &T) -> Result<(), E> { self.0.push(v.serialize(S)?); Ok(()) }
    fn serialize_value<T: ?Sized + Serialize>(&mut self, v: &T) -> Result<(), E> { self.0.push(v.serialize(S)?); Ok(()) }
    fn end(self) -> Result<String, E> { seq_end(self) }
}
fn st_end(s: St) -> Result<String, E> {
    let mut o = String::from("{\"s\":");
    esc(s.0, &mut o);
    o.push_str(",\"f\":[");
    for (i, (k, v)) in s.1.iter().enumerate() {
        if i > 0 {
            o.push(',');
        }
        o.push('[');
        esc(k, &mut o);
        o.push(',');
        o.push_str(v);
        o.push(']');
    }
    o.push_str("]}");
    Ok(o)
}
impl ser::SerializeStruct for St {
    type Ok = String;
    type Error = E;
    fn serialize_field<T: ?Sized + Serialize>(&mut self, k: &'static str, v: &T) -> Result<(), E> { self.1.push((k.to_string(), v.serialize(S)?)); Ok(()) }
    fn end(self) -> Result<String, E> { st_end(self) }
}
impl ser::SerializeStructVariant for St {
    type Ok = String;
    type Error = E;
    fn serialize_field<T: ?Sized + Serialize>(&mut self, k: &'static str, v: &T) -> Result<(), E> { self.1.push((k.to_string(), v.serialize(S)?)); Ok(()) }
    fn end(self) -> Result<String, E> { st_end(self) }
}
