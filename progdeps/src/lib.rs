// holder crate, see Cargo.toml
