#!/bin/bash
# background runs (vp run --with-repo) work on a private snapshot of the repository
if [ -n "${VP_RUN_REPO:-}" ]; then
  sed -i "s#path = \"/repo\"#path = \"$VP_RUN_REPO\"#" harness/Cargo.toml
  sed -i "s#cd /repo #cd $VP_RUN_REPO #" setup.sh
  cp /repo/Cargo.lock "$VP_RUN_REPO/" 2>/dev/null
  export XSGV_REPO="$VP_RUN_REPO"
fi
./setup.sh >/dev/null 2>&1
for p in ${ORDER:-C15 C16 C03 C01 C09 C11 C10 C14 C04 C06 C05 C08 C07 C12 C13 C02}; do
  s=$(date +%s); ./check $p thorough 2>&1 | cut -c1-300 | tail -3; echo "  [$p took $(( $(date +%s)-s )) s]"
done
