#!/bin/bash
./setup.sh >/dev/null 2>&1
for p in C15 C16 C03 C01 C09 C11 C10 C14 C04 C06 C05 C08 C07 C12 C13 C02; do
  s=$(date +%s); ./check $p thorough 2>&1 | cut -c1-300 | tail -3; echo "  [$p took $(( $(date +%s)-s )) s]"
done
