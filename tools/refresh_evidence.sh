#!/bin/bash
# Re-run every quick check on the (clean) tree so that the committed evidence files come from the
# unchanged repository, then validate them against the schemas.
cd "$(dirname "$0")/.."
if [ -n "$(git -C /repo status --porcelain --untracked-files=no)" ]; then echo "/repo is not clean"; exit 1; fi
rc=0
for p in C01 C02 C03 C04 C05 C06 C07 C08 C09 C10 C11 C12 C13 C14 C15 C16; do
  out=$(VERIF_SEED=${VERIF_SEED:-0} ./check $p quick 2>&1); e=$?
  echo "$p exit=$e $(echo "$out" | grep -E '^(OK|VIOLATION|INCONCLUSIVE)' | head -1 | cut -c1-150)"
  [ $e -ne 0 ] && rc=1
done
python3-vt - <<'PY'
import json,jsonschema,glob
jsonschema.validate(json.load(open('/verif/MANIFEST.json')), json.load(open('/root/.vp/MANIFEST.schema.json')))
bad=0
for f in sorted(glob.glob('/verif/evidence/*.json')):
    e=json.load(open(f))
    try:
        jsonschema.validate(e, json.load(open('/root/.vp/EVIDENCE.schema.json')))
    except Exception as ex:
        bad+=1; print("INVALID", f, str(ex)[:200])
    if e.get('violations',0)!=0: bad+=1; print("VIOLATIONS RECORDED", f)
print("evidence valid" if not bad else "evidence problems: %d"%bad)
PY
exit $rc
