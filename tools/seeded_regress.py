#!/usr/bin/env python3
"""Regression of every recorded seeded change against the current checks, on a scratch copy of the repository
(vp run --with-repo; never /repo). For each change: apply the patch, run the quick check of the property it breaks;
if that one is silent, the checks recorded as having caught it. Writes one JSON line per change.

usage: seeded_regress.py <repo-copy> <out.jsonl> [name-prefix ...]
"""
import glob, json, os, subprocess, sys, time
VERIF = os.path.dirname(os.path.dirname(os.path.abspath(__file__)))
def sh(cmd, cwd=None, timeout=900):
    try:
        p = subprocess.run(cmd, shell=True, executable="/bin/bash", cwd=cwd, stdout=subprocess.PIPE, stderr=subprocess.STDOUT, text=True, timeout=timeout)
        return p.returncode, p.stdout
    except subprocess.TimeoutExpired:
        return 124, "timeout"
def main():
    repo = os.path.abspath(sys.argv[1])
    assert repo != "/repo", "scratch copy only"
    outp = sys.argv[2]
    prefixes = sys.argv[3:]
    done = set()
    if os.path.exists(outp):
        for l in open(outp):
            try: done.add(json.loads(l)["name"])
            except Exception: pass
    out = open(outp, "a")
    metas = sorted(glob.glob(os.path.join("/verif", "seeded", "*", "meta.json")))
    for mp in metas:
        m = json.load(open(mp)); name = m["name"]
        if name in done or (prefixes and not any(name.startswith(p) for p in prefixes)): continue
        d = os.path.dirname(mp)
        rc, o = sh(f"git apply {d}/patch.diff", cwd=repo)
        rec = {"name": name, "breaks_property": m["breaks_property"], "recorded_caught_by": m.get("caught_by", [])}
        if rc != 0:
            rec["status"] = "patch_does_not_apply"; rec["detail"] = o[-200:]
        else:
            order = [m["breaks_property"]] + [c for c in m.get("caught_by", []) if c != m["breaks_property"]]
            rec["checks"] = {}
            for c in order:
                t0 = time.time()
                rc3, o3 = sh(f"./check {c} quick 2>&1 | grep -a -E -A1 '^(OK|VIOLATION|INCONCLUSIVE)[ :]' | head -3", cwd=VERIF)
                v = "VIOLATION" if "VIOLATION property=" in o3 else ("OK" if "OK property=" in o3 else "OTHER")
                rec["checks"][c] = {"verdict": v, "s": round(time.time() - t0, 1), "line": " ".join(o3.strip().split("\n")[1:2])[:200]}
                if v == "VIOLATION": break
            rec["status"] = "caught" if any(x["verdict"] == "VIOLATION" for x in rec["checks"].values()) else "MISSED"
            rec["own_check"] = rec["checks"][m["breaks_property"]]["verdict"]
        sh("git checkout -q -- . ; git clean -fdq src", cwd=repo)
        out.write(json.dumps(rec, ensure_ascii=False) + "\n"); out.flush()
        print(name, rec["status"], rec.get("own_check"), flush=True)
if __name__ == "__main__":
    main()
