#!/bin/bash
# background job (vp run --with-repo): every recorded seeded change against the current checks, on a private snapshot
set -u
if [ -z "${VP_RUN_REPO:-}" ]; then echo "needs vp run --with-repo"; exit 2; fi
sed -i "s#path = \"/repo\"#path = \"$VP_RUN_REPO\"#" harness/Cargo.toml
sed -i "s#cd /repo #cd $VP_RUN_REPO #" setup.sh
cp /repo/Cargo.lock "$VP_RUN_REPO/" 2>/dev/null
export XSGV_REPO="$VP_RUN_REPO"
./setup.sh >/dev/null 2>&1
python3 tools/seeded_regress.py "$VP_RUN_REPO" "${OUT:-/verif/seeded/regression.jsonl}" ${ARGS:-}
