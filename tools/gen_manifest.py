#!/usr/bin/env python3
"""Regenerates /verif/MANIFEST.json from the table below (kept in one place so it stays valid)."""
import json, os
ROOT = os.path.dirname(os.path.dirname(os.path.abspath(__file__)))

CHECKS = {
 "C01": dict(
   technique="property-based testing: generated document sequences, validity predicate of every source document against the rendered struct tree",
   text="Generated-input search (proptest-driven tape decoder, 60k sequences quick / 4M thorough) with a validity oracle that walks every source document against the struct tree read back from the rendering; finds counterexamples and shrinks them, cannot prove absence.",
   note="Trusts the harness's reader of the rendered text (line reader cross-checked with syn) and the generator's DOM; domain restricted at pool level to names that do not clash after prefix removal.",
   ref="DESIGN.md §4 C01"),
 "C03": dict(
   technique="property-based testing: differential against an independent reference inference over the generator's DOM",
   text="Generated-input search with a reference-model oracle (exact iff comparison of optionality, multiplicity, text flags, String typing, struct count) at two observation points (rendering and returned Element tree).",
   note="Trusts the 40-line reference inference and the rendered-output readers; sequences of up to 5 documents of up to ~40 nodes (60 in wide mode).",
   ref="DESIGN.md §4 C03"),
 "C15": dict(
   technique="small-scope exhaustive enumeration plus property-based sampling against the direct specification",
   text="All ordered pairs of duplicate-free tagged lists over an alphabet of 4 (quick, 400 689 pairs) or 5 (thorough, 40M pairs) are enumerated and checked clause by clause against the statement; larger alphabets and String payloads are sampled with proptest.",
   note="Exhaustive only up to the alphabet bound; payload types u8 and String.",
   ref="DESIGN.md §4 C15"),
}

NOT_YET = {}

def main():
    props = [json.loads(l) for l in open(os.path.join(ROOT, "properties.jsonl"))]
    checks = []
    na = []
    for p in props:
        pid = p["id"]
        if pid in CHECKS:
            c = CHECKS[pid]
            checks.append({
                "property_id": pid,
                "quick_cmd": f"./check {pid} quick",
                "thorough_cmd": f"./check {pid} thorough",
                "evidence_file": f"/verif/evidence/{pid}.json",
                "replay_cmd_template": f"./check {pid} --replay {{path}}",
                "engine": "xsgv",
                "level_claimed": {"category": "exploration", "text": c["text"], "design_ref": c["ref"]},
                "level_note": c["note"],
                "technique": c["technique"],
            })
        else:
            na.append({"property_id": pid, "reason": NOT_YET.get(pid, "check not built yet in this session (planned in DESIGN.md §4; the technique applies)")})
    m = {
        "version": 1,
        "setup_cmd": "./setup.sh",
        "hooks": {
            "guard": "--cfg xsg_verif",
            "enable": "no source hooks are needed: every observation point is public API; checks build /repo unmodified as a path dependency of /verif/harness",
            "baseline_off_cmd": "cd /repo && cargo test --workspace --no-fail-fast --offline",
            "source_commits": [],
            "add_only": True,
        },
        "engines": [
            {"name": "xsgv", "path": "/verif/harness", "serves_properties": sorted(CHECKS.keys()),
             "kind_free_text": "Rust harness: proptest-driven tape decoder for document sequences / operation histories / byte strings, reference models and oracles per property, sharded runner with shrinking, replay and evidence writers"},
        ],
        "checks": checks,
        "not_applicable": na,
        "notes": "Known findings: /verif/KNOWN_FINDINGS.txt. Sensitivity mutants: /verif/mutants. Seeded changes from sub-agents: /verif/seeded.",
    }
    json.dump(m, open(os.path.join(ROOT, "MANIFEST.json"), "w"), indent=1)
    print("MANIFEST.json written:", len(checks), "checks,", len(na), "not_applicable")

if __name__ == "__main__":
    main()
