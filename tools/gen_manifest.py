#!/usr/bin/env python3
"""Regenerates /verif/MANIFEST.json from the table below (kept in one place so it stays valid)."""
import json, os
ROOT = os.path.dirname(os.path.dirname(os.path.abspath(__file__)))

CHECKS = {
 "C01": dict(
   technique="property-based testing: generated document sequences, validity predicate of every source document against the rendered struct tree",
   text="Generated-input search (proptest-driven tape decoder, 60k sequences quick / 4M thorough) with a validity oracle that walks every source document against the struct tree read back from the rendering; finds counterexamples and shrinks them, cannot prove absence. Plus small-scope exhaustive enumeration (all ordered pairs/triples of small documents) and 728 enumerated size families (thresholds, colliding-name swarms, chains to depth 300).",
   note="Trusts the harness's reader of the rendered text (line reader cross-checked with syn) and the generator's DOM; domain restricted at pool level to names that do not clash after prefix removal.",
   ref="DESIGN.md §4 C01"),
 "C03": dict(
   technique="property-based testing: differential against an independent reference inference over the generator's DOM",
   text="Generated-input search with a reference-model oracle (exact iff comparison of optionality, multiplicity, text flags, String typing, struct count) at two observation points (rendering and returned Element tree). Plus small-scope exhaustive enumeration (pairs, triples, 4-tuples of small documents), attribute-list and threshold families (counts around 256, 1024, 65536) and 728 enumerated size families.",
   note="Trusts the 40-line reference inference and the rendered-output readers; sequences of up to 5 documents of up to ~40 nodes (60 in wide mode).",
   ref="DESIGN.md §4 C03"),
 "C15": dict(
   technique="small-scope exhaustive enumeration plus property-based sampling against the direct specification",
   text="All ordered pairs of duplicate-free tagged lists over an alphabet of 4 (quick, 400 689 pairs) or 5 (thorough, 40M pairs) are enumerated and checked clause by clause against the statement; larger alphabets and String payloads are sampled with proptest.",
   note="Exhaustive only up to the alphabet bound; payload types u8 and String.",
   ref="DESIGN.md §4 C15"),
"C04": dict(
   technique="property-based testing: adversarial name pools, output parsed with syn and checked by a well-formedness predicate",
   text="Generated-input search over adversarial name sets; the rendering is parsed by syn (cross-checked with a strict line reader) and a validity predicate checks uniqueness/legality of struct and field names, field types and struct usage. Plus exhaustive enumeration of small documents and flat elements over colliding names and the 728 enumerated size families (n colliding struct names / identifiers, chains).",
   note="Trusts syn 2 as the syntax oracle (edition-2021 keywords); names restricted to XID characters plus - . : with a letter first.",
   ref="DESIGN.md §4 C04"),
 "C05": dict(
   technique="property-based testing: invariant over repetitions (in-process, threads, fresh processes), byte comparison",
   text="Generated sequences weighted towards identifier collisions and multi-demotion; bytes of parse+extend+render compared over 8/16 in-process repetitions (fresh hash keys per HashMap), 4 threads, and 4/8 fresh processes. Histories that render the tree after every document must end in the same bytes; plus exhaustive small documents and the 728 size families, each rendered six times.",
   note="Probabilistic: an exposed order dependence is missed with probability about 2^-(R-1) per exposing case.",
   ref="DESIGN.md §4 C05"),
 "C06": dict(
   technique="property-based testing over histories: algebraic laws (batch equivalence, permutation, idempotence, neutrality, monotonicity) on a schema abstraction plus reference model",
   text="Generated histories parse/extend with repetitions, element-less inputs, permutations and damaged tails; laws checked after every step against the reference inference over the union and against the previous step. A re-supply family adds large single documents (an element seen 256 / 65536 times) supplied repeatedly.",
   note="Schema abstraction ignores field order, identifiers and struct names; expected verdict for damaged tails from an independent reader pass.",
   ref="DESIGN.md §4 C06"),
 "C07": dict(
   technique="fuzzing / property-based byte-level generation with crash and hang supervision (catch_unwind, signal handler, watchdog); libFuzzer target in the thorough tier",
   text="Mass generation of hostile byte strings (mutated valid documents, raw bytes, chains to depth 200) through many BufRead shapes and reader configurations; a supervising process converts panics, aborts (stack overflow) and >20 s cases into violations with the offending input.",
   note="Termination bounded by a watchdog, not proved; 8 MiB stacks; inputs up to ~6 KB; depth > 200 screened out by an independent pass.",
   ref="DESIGN.md §4 C07"),
 "C08": dict(
   technique="property-based differential testing against an independent pass over the same reader events",
   text="For every generated byte string a second reader of the same kind is stepped independently; the first error condition in stream order fixes the exact expected verdict (variant, inner error, position); both spurious and swallowed errors are violations.",
   note="Trusts quick-xml's own event stream as the definition of 'the reader reports'; default reader configuration only.",
   ref="DESIGN.md §4 C08"),
 "C09": dict(
   technique="property-based testing: reference first-appearance orders plus metamorphic relation between the two sort options",
   text="Generated sequences; unsorted rendering compared with reference first-appearance orders, sorted rendering with ascending XML names, and both renderings must agree on everything but order. Plus exhaustive pairs/triples of small documents, a sort-key family over tricky names and the 728 size families.",
   note="Relative order of common fields only; sort order = Rust String order of the full XML name.",
   ref="DESIGN.md §4 C09"),
 "C10": dict(
   technique="property-based metamorphic testing: byte-exact expected output derived from a sentinel rendering",
   text="Documents x options; expected output computed by textual substitution from a rendering with private-use sentinels, compared byte for byte; preset relations checked.",
   note="Option strings from curated lists rather than arbitrary Unicode.",
   ref="DESIGN.md §4 C10"),
 "C11": dict(
   technique="property-based metamorphic testing: one structure, two independent surface serialisations and reader shapes, byte-identical output",
   text="Each structural model is serialised twice with independent surface choices (values, text/CDATA, comments, PIs, prolog, DOCTYPE, BOM, empty-element form) and read through different buffer shapes / expand_empty_elements; renderings must be identical. Plus exhaustive pairs in two fixed surface forms, the 728 size families and occurrence thresholds (1000-1025, 4097) under the surface-variant oracle.",
   note="Empty CDATA is treated as structural; both variants well-formed.",
   ref="DESIGN.md §4 C11"),
 "C12": dict(
   technique="property-based testing of the CLI as a subprocess against the in-process library (differential) with injected input/output faults",
   text="4000 (quick) / 80000 (thorough) process runs over input kinds x options x output kinds; exit status, stdout, stderr and output file bytes compared with header + library rendering or with the clean-failure contract. Plus a fixed buffer-boundary family (multi-byte characters around 4096..65536, outputs of exactly 4096/8192/16384 bytes); output paths include symbolic links, the input file itself, /dev/null and a named pipe with a reader; inputs include a pipe (/dev/stdin) besides regular, damaged, non-UTF-8, missing, directory and empty files.",
   note="Runs as root: permission faults replaced by structural faults; binary rebuilt from the working tree by ./check.",
   ref="DESIGN.md §4 C12"),
 "C14": dict(
   technique="property-based testing: validity predicate on struct names against tree positions (chains to depth 200)",
   text="Every struct item is mapped to its tree position and its name checked to be the PascalCase own name preceded by nearest ancestors (plus optional digits), unqualified for the root and for names occurring at a single position.",
   note="PascalCase form taken from Element::formatted_name() and sanity-checked by case folding.",
   ref="DESIGN.md §4 C14"),
 "C16": dict(
   technique="stateful model-based testing: exhaustive operation sequences to a length bound plus random sequences, ordered-map model compared after every step",
   text="All sequences of up to 4/5 operations from a 24-operation universe are enumerated, 60k/3M random sequences of up to 40 operations over three tree slots; every step compares trees with the model; renderings checked with the C04 oracle and against the model. Plus fixed deep chains and wide parents (up to 300) built through the public operations.",
   note="Internal child order not compared; duplicate-free attribute lists.",
   ref="DESIGN.md §4 C16"),
"C02": dict(
   technique="property-based testing over programs: every generated program is compiled by rustc and executed against its own source documents (round-trip through quick_xml::de), value tree compared with the document",
   text="512 (quick) / 16384 (thorough) generated programs, each compiled unchanged and with deny_unknown_fields, run against every source document; the deserialized value must hold every attribute value and text content; failures are shrunk with single-program compiles. One program in four is rendered with sort-by-name on top of the preset; the static stage also covers the enumerated size families in both orders.",
   note="Trusts rustc (stable 1.95, edition 2021), serde 1.0.229, quick-xml 0.37.5 with overlapped-lists; custom entities and CDATA blanks between children are outside the generator (deserializer limitations, documented).",
   ref="DESIGN.md §4 C02"),
 "C13": dict(
   technique="property-based testing over programs: compiled by rustc and executed through serde_xml_rs::from_str against the source documents; known finding excluded by construction and probed by a dedicated slice",
   text="As C02 for the serde-xml-rs preset on namespace-free, adjacent-repeat, unmixed documents; the open finding (text of struct-typed elements dropped) is excluded by construction, one case in twenty probes it and must show exactly that signature. One program in four is rendered with sort-by-name on top of the preset; the static stage (with an admits check for the prefix-less preset) also covers the enumerated size families in both orders.",
   note="Trusts rustc, serde-xml-rs 0.6.0 / xml-rs 0.8; no processing instructions inside documents (xml-rs splits text around them).",
   ref="DESIGN.md §4 C13"),
}

NOT_YET = {}

def main():
    props = [json.loads(l) for l in open(os.path.join(ROOT, "properties.jsonl"))]
    checks = []
    na = []
    for p in props:
        pid = p["id"]
        if pid in CHECKS:
            c = CHECKS[pid]
            checks.append({
                "property_id": pid,
                "quick_cmd": f"./check {pid} quick",
                "thorough_cmd": f"./check {pid} thorough",
                "evidence_file": f"/verif/evidence/{pid}.json",
                "replay_cmd_template": f"./check {pid} --replay {{path}}",
                "engine": "xsgv",
                "level_claimed": {"category": "exploration", "text": c["text"], "design_ref": c["ref"]},
                "level_note": c["note"],
                "technique": c["technique"],
            })
        else:
            na.append({"property_id": pid, "reason": NOT_YET.get(pid, "check not built yet in this session (planned in DESIGN.md §4; the technique applies)")})
    m = {
        "version": 1,
        "setup_cmd": "./setup.sh",
        "hooks": {
            "guard": "--cfg xsg_verif",
            "enable": "no source hooks are needed: every observation point is public API; checks build /repo unmodified as a path dependency of /verif/harness",
            "baseline_off_cmd": "cd /repo && cargo test --workspace --no-fail-fast --offline",
            "source_commits": [],
            "add_only": True,
        },
        "engines": [
            {"name": "xsgv", "path": "/verif/harness", "serves_properties": sorted(CHECKS.keys()),
             "kind_free_text": "Rust harness: proptest-driven tape decoder for document sequences / operation histories / byte strings, reference models and oracles per property, sharded runner with shrinking, replay and evidence writers"},
        ],
        "checks": checks,
        "not_applicable": na,
        "notes": "Known findings: /verif/KNOWN_FINDINGS.txt. Sensitivity mutants: /verif/mutants. Seeded changes from sub-agents: /verif/seeded.",
    }
    json.dump(m, open(os.path.join(ROOT, "MANIFEST.json"), "w"), indent=1)
    print("MANIFEST.json written:", len(checks), "checks,", len(na), "not_applicable")

if __name__ == "__main__":
    main()
