#!/usr/bin/env python3
"""Systematic first-order mutation of the crate's non-test source, as a measure of what the quick checks can
see. Works ONLY on a scratch copy of the repository (argument / $VP_RUN_REPO), never on /repo.

For every mutant: the crate's own suite (cargo test --lib + --doc) runs first; mutants it kills are not
interesting. A mutant that compiles and passes the suite is given to the quick checks, in an order that puts
the cheap and broad ones first, stopping at the first check that exits 1. Survivors of all 16 checks are
listed for manual classification (equivalent with respect to every listed property, or a gap).

usage: automutate.py <repo-copy> <out.jsonl> [--files a.rs,b.rs] [--limit N] [--shard i/n]
"""
import json, os, re, subprocess, sys, time

VERIF = os.path.dirname(os.path.dirname(os.path.abspath(__file__)))
ORDER = os.environ.get("ORDER", "").split() or ["C03", "C16", "C04", "C09", "C10", "C14", "C01", "C08", "C15", "C11", "C05", "C06", "C07", "C12", "C13", "C02"]
FILES = ["src/parser.rs", "src/element.rs", "src/element/identifier.rs", "src/element/macro_rule.rs", "src/necessity.rs", "src/options.rs", "src/main.rs", "src/args.rs"]

def sh(cmd, cwd=None, timeout=3600):
    # own session, so that a timeout can kill the whole process group (cargo -> test binary, check -> workers)
    import signal
    p = subprocess.Popen(cmd, shell=True, executable='/bin/bash', cwd=cwd, stdout=subprocess.PIPE, stderr=subprocess.STDOUT, text=True, start_new_session=True)
    try:
        out, _ = p.communicate(timeout=timeout)
        return p.returncode, out
    except subprocess.TimeoutExpired:
        try:
            os.killpg(p.pid, signal.SIGKILL)
        except ProcessLookupError:
            pass
        p.communicate()
        return 124, "timeout"

# (name, regex, replacement) - applied to one occurrence on one line
OPS = [
    ("eq_to_ne", r" == ", " != "),
    ("ne_to_eq", r" != ", " == "),
    ("lt_to_le", r" < ", " <= "),
    ("gt_to_ge", r" > ", " >= "),
    ("le_to_lt", r" <= ", " < "),
    ("ge_to_gt", r" >= ", " > "),
    ("and_to_or", r" && ", " || "),
    ("or_to_and", r" \|\| ", " && "),
    ("true_to_false", r"\btrue\b", "false"),
    ("false_to_true", r"\bfalse\b", "true"),
    ("plus1_to_plus2", r"\+ 1\b", "+ 2"),
    ("pluseq1_to_pluseq2", r"\+= 1\b", "+= 2"),
    ("minus1_to_minus0", r"- 1\b", "- 0"),
    ("zero_to_one", r"\b0\b", "1"),
    ("one_to_zero", r"\b1\b", "0"),
    ("mand_to_opt", r"Necessity::Mandatory\(", "Necessity::Optional("),
    ("opt_to_mand", r"Necessity::Optional\(", "Necessity::Mandatory("),
    ("drop_not", r"if !", "if "),
    ("add_not", r"if (?!let\b|!)", "if !"),
    ("some_to_none_guard", r"\.is_some\(\)", ".is_none()"),
    ("none_to_some_guard", r"\.is_none\(\)", ".is_some()"),
    ("empty_flip", r"\.is_empty\(\)", ".is_empty() == false"),
    ("contains_flip", r"(\S+\.contains\([^()]*(\([^()]*\))?[^()]*\))", r"!\1"),
    ("sortkey_name_to_pos", r"\.name\.to_string\(\)", ".position"),
    ("push_str_drop", r"^\s*\S.*\.push_str\(.*\);\s*$", ""),
    ("push_drop", r"^\s*\S.*\.push\(.*\);\s*$", ""),
    ("call_stmt_drop", r"^\s*[a-z_\.]+\.(set_multiple|increment|set_child_optional|add_unique_child|insert|pop|sort\w*|clear|extend)\(.*\);\s*$", ""),
    ("stmt_drop", r"^\s*(?!let\b|return\b|use\b|pub\b|fn\b|impl\b|\}|\{)[A-Za-z_][\w\.:]*(\(|\.|\s*=\s|\s*\+=).*;\s*$", ""),
    ("iter_rev", r"\.iter\(\)", ".iter().rev()"),
    ("into_iter_rev", r"\.into_iter\(\)", ".into_iter().rev()"),
    ("first_to_last", r"\.first\(\)", ".last()"),
    ("last_to_first", r"\.last\(\)", ".first()"),
    ("continue_to_break", r"\bcontinue;", "break;"),
    ("break_to_continue", r"\bbreak;", "continue;"),
    ("strlit_drop_last_char", r'"((?:[^"\\]|\\.)+)(?:[^"\\]|\\.)"', r'"\1"'),
    ("underscore_to_dash", r'"_"', '"-"'),
    ("underscore_fmt", r'"\{\}_\{\}"', '"{}{}"'),
]

def mutants_of(path, text):
    lines = text.split("\n")
    # stop at the unit-test module of the file (the last `#[cfg(test)]` that is followed by `mod `)
    end = len(lines)
    for i, l in enumerate(lines):
        if l.strip() == "#[cfg(test)]" and i + 1 < len(lines) and lines[i + 1].lstrip().startswith("mod "):
            if "mod tests" in lines[i + 1] or i > 40:
                end = i
                break
    out = []
    for i in range(end):
        l = lines[i]
        s = l.strip()
        if not s or s.startswith("//") or s.startswith("#[") or s.startswith("use ") or s.startswith("///"):
            continue
        code = l.split("//")[0] if '"' not in l else l
        for name, rx, rep in OPS:
            for k, m in enumerate(re.finditer(rx, code)):
                if k >= 3:
                    break
                new = code[:m.start()] + m.expand(rep) + code[m.end():]
                if new == l:
                    continue
                out.append({"file": path, "line": i + 1, "op": name, "old": l.strip(), "new": new.strip(), "_idx": i, "_new": new})
    return out

def main():
    repo = os.path.abspath(sys.argv[1])
    assert repo != "/repo" and os.path.isdir(os.path.join(repo, "src")), "work on a scratch copy only"
    outp = sys.argv[2]
    files = FILES
    limit = None
    shard = (0, 1)
    a = sys.argv[3:]
    while a:
        if a[0] == "--files": files = a[1].split(","); a = a[2:]
        elif a[0] == "--limit": limit = int(a[1]); a = a[2:]
        elif a[0] == "--shard": i, n = a[1].split("/"); shard = (int(i), int(n)); a = a[2:]
        else: sys.exit("unknown argument " + a[0])
    env_check = dict(os.environ)
    env_check["XSGV_REPO"] = repo
    allm = []
    for f in files:
        p = os.path.join(repo, f)
        if os.path.exists(p):
            allm += mutants_of(f, open(p).read())
    seen = set(); uniq = []
    for m in allm:
        k = (m["file"], m["line"], m["new"])
        if k not in seen:
            seen.add(k); uniq.append(m)
    allm = [m for k, m in enumerate(uniq) if k % shard[1] == shard[0]]
    if limit: allm = allm[:limit]
    print(f"{len(allm)} mutants", flush=True)
    done = set()
    if os.path.exists(outp):
        for l in open(outp):
            try:
                r = json.loads(l); done.add((r["file"], r["line"], r["op"], r["new"]))
            except Exception: pass
    out = open(outp, "a")
    for n, m in enumerate(allm):
        key = (m["file"], m["line"], m["op"], m["new"])
        if key in done: continue
        p = os.path.join(repo, m["file"])
        orig = open(p).read()
        lines = orig.split("\n")
        lines[m["_idx"]] = m["_new"]
        rec = {k: v for k, v in m.items() if not k.startswith("_")}
        t0 = time.time()
        try:
            open(p, "w").write("\n".join(lines))
            rc, o = sh("cargo test --offline --lib 2>&1 | tail -5; exit ${PIPESTATUS[0]}", cwd=repo, timeout=120)
            if rc != 0:
                rec["status"] = "compile_error" if ("error[" in o or "error:" in o and "test result" not in o) and "test result" not in o else "killed_by_suite"
                if rc == 124: rec["status"] = "suite_timeout"
            else:
                rc2, o2 = sh("cargo test --offline --doc 2>&1 | tail -3; exit ${PIPESTATUS[0]}", cwd=repo, timeout=600)
                if rc2 != 0:
                    rec["status"] = "killed_by_suite"
                else:
                    rec["status"] = "survived_all_checks"
                    rec["checks"] = {}
                    for c in ORDER:
                        rc3, o3 = sh(f"./check {c} quick 2>&1 | grep -a -E -A1 '^(OK|VIOLATION|INCONCLUSIVE)[ :]' | head -4", cwd=VERIF, timeout=200)
                        # exit code of the pipeline is tail's; read the verdict line instead
                        verdict = "OK" if "\nOK property=" in "\n" + o3 else ("VIOLATION" if "VIOLATION property=" in o3 else ("INCONCLUSIVE" if "INCONCLUSIVE" in o3 else "OTHER"))
                        rec["checks"][c] = verdict
                        if verdict == "VIOLATION":
                            rec["status"] = "caught"
                            rec["caught_by"] = c
                            rec["detail"] = " ".join(o3.strip().split("\n")[:2])[:300]
                            break
                        if verdict in ("OTHER", "INCONCLUSIVE"):
                            rec.setdefault("notes", []).append(f"{c}: {o3.strip()[-300:]}")
        finally:
            open(p, "w").write(orig)
        rec["s"] = round(time.time() - t0, 1)
        out.write(json.dumps(rec, ensure_ascii=False) + "\n"); out.flush()
        print(f"[{n+1}/{len(allm)}] {m['file']}:{m['line']} {m['op']}: {rec['status']} {rec.get('caught_by','')} ({rec['s']} s)", flush=True)

if __name__ == "__main__":
    main()
