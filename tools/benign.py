#!/usr/bin/env python3
"""Negative controls: property-preserving changes (refactorings, unspecified behaviour, performance work)
written by sub-agents. `benign.py add <name> <worktree>` stores the patch after confirming that the crate
builds and its suite passes; `benign.py run <name>` applies it to /repo, runs all 16 quick checks (every
one must exit 0), and undoes it."""
import json, os, subprocess, sys, time
VERIF = os.path.dirname(os.path.dirname(os.path.abspath(__file__)))
ALL = ["C01","C02","C03","C04","C05","C06","C07","C08","C09","C10","C11","C12","C13","C14","C15","C16"]
def sh(cmd, cwd=None):
    p = subprocess.run(cmd, shell=True, cwd=cwd, stdout=subprocess.PIPE, stderr=subprocess.STDOUT, text=True)
    return p.returncode, p.stdout
def add(name, wt):
    d = os.path.join(VERIF, "benign", name); os.makedirs(d, exist_ok=True)
    sh("git add -N src", cwd=wt)  # new files belong to the patch
    rc, diff = sh("git diff -- src", cwd=wt)
    if not diff.strip(): sys.exit("no change")
    open(os.path.join(d, "patch.diff"), "w").write(diff)
    rc, out = sh("cargo test --offline --lib 2>&1 | grep -E '^test result|error' ; cargo test --offline --doc 2>&1 | grep -E '^test result|error'", cwd=wt)
    import re as _re
    _m = _re.search(r"(\d+) passed", out)
    ok = out.count("test result: ok") >= 2 and _m is not None and int(_m.group(1)) >= 102 and "FAILED" not in out
    meta = {"name": name, "suite_passes": ok, "changed_lines": sum(1 for l in diff.splitlines() if l.startswith(('+','-')) and not l.startswith(('+++','---')))}
    json.dump(meta, open(os.path.join(d, "meta.json"), "w"), indent=1)
    print(meta)
def run(name, checks):
    d = os.path.join(VERIF, "benign", name)
    rc, out = sh("git status --porcelain --untracked-files=no", cwd="/repo")
    if out.strip(): sys.exit("/repo not clean")
    rc, out = sh(f"git apply {d}/patch.diff", cwd="/repo")
    if rc: sys.exit("patch does not apply: "+out)
    res = {}
    try:
        for c in checks:
            t0=time.time(); rc, out = sh(f"./check {c} quick", cwd=VERIF)
            line=[l for l in out.splitlines() if l.startswith(("VIOLATION","INCONCLUSIVE","OK"))]
            detail=""
            if rc==1:
                ls=out.splitlines(); i=[k for k,l in enumerate(ls) if l.startswith("VIOLATION")]
                if i: detail=" ".join(ls[i[0]+1:i[0]+3])[:400]
            res[c]={"exit":rc,"s":round(time.time()-t0,1),"detail":detail}
            if rc!=0: print(f"  {c}: exit {rc} {detail[:200]}", flush=True)
    finally:
        sh("git checkout -q -- .", cwd="/repo")
        # the checks rewrote the evidence files while the change was applied: restore the committed ones
        sh("git checkout -q -- evidence", cwd=VERIF)
        # files the patch created are untracked in /repo: remove exactly those
        lines = open(f"{d}/patch.diff").read().splitlines()
        for k, l in enumerate(lines):
            if l.startswith("--- /dev/null") and k + 1 < len(lines) and lines[k + 1].startswith("+++ b/"):
                f = os.path.join("/repo", lines[k + 1][6:])
                if os.path.isfile(f): os.remove(f)
        sh(f"find {VERIF}/replays -name '*.json' -delete")
    mp=os.path.join(d,"meta.json"); meta=json.load(open(mp)); meta["checks"]=res
    meta["alarms"]=sorted(c for c,r in res.items() if r["exit"]==1)
    json.dump(meta, open(mp,"w"), indent=1)
    print(name, "alarms:", meta["alarms"] or "none", "non-zero:", sorted(c for c,r in res.items() if r["exit"]!=0) or "none")
if __name__=="__main__":
    if sys.argv[1]=="add": add(sys.argv[2], sys.argv[3])
    else: run(sys.argv[2], sys.argv[3:] or ALL)
