#!/bin/bash
# silence check: every quick check under several seeds, from fresh processes, on the unchanged tree
# background runs (vp run --with-repo) work on a private snapshot of the repository
if [ -n "${VP_RUN_REPO:-}" ]; then
  sed -i "s#path = \"/repo\"#path = \"$VP_RUN_REPO\"#" harness/Cargo.toml
  sed -i "s#cd /repo #cd $VP_RUN_REPO #" setup.sh
  cp /repo/Cargo.lock "$VP_RUN_REPO/" 2>/dev/null
  export XSGV_REPO="$VP_RUN_REPO"
fi
./setup.sh >/dev/null 2>&1
for seed in ${SEEDS:-1 2 3 4 5}; do
  for p in C01 C02 C03 C04 C05 C06 C07 C08 C09 C10 C11 C12 C13 C14 C15 C16; do
    out=$(VERIF_SEED=$seed ./check $p quick 2>&1); rc=$?
    echo "seed=$seed $p exit=$rc $(echo "$out" | grep -E '^(OK|VIOLATION|INCONCLUSIVE)' | head -1 | cut -c1-160)"
    if [ $rc -ne 0 ]; then echo "$out" | head -20; fi
  done
done
