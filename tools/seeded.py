#!/usr/bin/env python3
"""Handling of seeded changes written by independent sub-agents.

  seeded.py verify <name> <worktree> <property>   confirm in the scratch worktree: builds, existing suite passes, the
                                                  demonstration fails with the change and passes without it; then store
                                                  patch + demonstration + meta.json under /verif/seeded/<name>/
  seeded.py run <name> [checks...]                apply /verif/seeded/<name>/patch.diff to /repo, run the quick checks
                                                  (default: all 16), undo the patch; record which checks caught it
"""
import json, os, subprocess, sys, time, shutil

VERIF = os.path.dirname(os.path.dirname(os.path.abspath(__file__)))
ALL = ["C01","C02","C03","C04","C05","C06","C07","C08","C09","C10","C11","C12","C13","C14","C15","C16"]

def sh(cmd, cwd=None, timeout=7200):
    p = subprocess.run(cmd, shell=True, cwd=cwd, stdout=subprocess.PIPE, stderr=subprocess.STDOUT, text=True, timeout=timeout)
    return p.returncode, p.stdout

def verify(name, wt, prop):
    d = os.path.join(VERIF, "seeded", name)
    os.makedirs(d, exist_ok=True)
    sh("git add -N src", cwd=wt)  # new source files belong to the patch
    rc, diff = sh("git diff -- src", cwd=wt)
    if not diff.strip():
        sys.exit("no source change in the worktree")
    open(os.path.join(d, "patch.diff"), "w").write(diff)
    demo = None
    for cand in ["tests/seeded_demo.rs", "seeded_demo.sh"]:
        if os.path.exists(os.path.join(wt, cand)):
            demo = cand
            shutil.copy(os.path.join(wt, cand), os.path.join(d, os.path.basename(cand)))
    if demo is None:
        sys.exit("no demonstration found")
    ran = []
    def demo_cmd():
        return "cargo test --offline --test seeded_demo 2>&1 | tail -15" if demo.endswith(".rs") else "cargo build --offline 2>&1 | tail -1; bash seeded_demo.sh; echo DEMO_EXIT=$?"
    # with the change
    rc, out = sh("cargo build --offline 2>&1 | tail -2", cwd=wt); ran.append(("cargo build --offline (with change)", out.strip()[-200:]))
    builds = "error" not in out
    rc, out = sh("cargo test --offline --lib 2>&1 | grep -E '^test result|error' ; cargo test --offline --doc 2>&1 | grep -E '^test result|error'", cwd=wt)
    ran.append(("cargo test --offline --lib/--doc (with change)", out.strip()))
    suite_ok = out.count("test result: ok") >= 2 and "FAILED" not in out and any(int(n) >= 102 for n in __import__("re").findall(r"test result: ok\. (\d+) passed", out))
    rc, out = sh(demo_cmd(), cwd=wt); ran.append(("demonstration (with change)", out.strip()[-600:]))
    demo_fails = ("FAILED" in out or "DEMO_EXIT=1" in out or "panicked" in out or "test failed, to rerun" in out) and "DEMO_EXIT=0" not in out
    # without the change
    pd = os.path.join(d, "patch.diff")
    rc0, o0 = sh(f"git apply -R {pd}", cwd=wt)
    if rc0 != 0:
        sys.exit("cannot undo the change in the worktree: " + o0)
    try:
        rc, out = sh(demo_cmd(), cwd=wt); ran.append(("demonstration (unchanged code)", out.strip()[-300:]))
        demo_passes = ("test result: ok" in out and "FAILED" not in out) or "DEMO_EXIT=0" in out
    finally:
        sh(f"git apply {pd}; git add -N src", cwd=wt)
    meta = {"name": name, "breaks_property": prop, "verified": {"builds": builds, "existing_suite_passes": suite_ok, "demo_fails_with_change": demo_fails, "demo_passes_without_change": demo_passes}, "ran": ran}
    mp = os.path.join(d, "meta.json")
    if os.path.exists(mp):
        old = json.load(open(mp))
        for k in ("needs", "caught_by", "missed_by", "runs"):
            if k in old: meta[k] = old[k]
    json.dump(meta, open(mp, "w"), indent=1, ensure_ascii=False)
    print(json.dumps(meta["verified"]))
    return all(meta["verified"].values())

def run(name, checks):
    d = os.path.join(VERIF, "seeded", name)
    rc, out = sh("git status --porcelain --untracked-files=no", cwd="/repo")
    if out.strip():
        sys.exit("/repo has uncommitted changes")
    rc, out = sh(f"git apply {d}/patch.diff", cwd="/repo")
    if rc != 0:
        sys.exit("patch does not apply: " + out)
    res = {}
    try:
        for c in checks:
            t0 = time.time()
            rc, out = sh(f"./check {c} quick", cwd=VERIF)
            line = [l for l in out.splitlines() if l.startswith("VIOLATION") or l.startswith("INCONCLUSIVE")]
            detail = ""
            if rc == 1:
                ls = out.splitlines()
                i = [k for k, l in enumerate(ls) if l.startswith("VIOLATION")]
                if i: detail = " ".join(ls[i[0]+1:i[0]+3])[:400]
            res[c] = {"exit": rc, "s": round(time.time()-t0, 1), "line": (line[0] if line else "")[:160], "detail": detail}
            print(f"  {c}: exit {rc} ({res[c]['s']} s) {detail[:150]}", flush=True)
    finally:
        sh("git checkout -q -- . ", cwd="/repo")
        # the checks rewrote the evidence files while the change was applied: restore the committed ones
        sh("git checkout -q -- evidence", cwd=VERIF)
        # files the patch created are untracked in /repo: remove exactly those
        lines = open(f"{d}/patch.diff").read().splitlines()
        for k, l in enumerate(lines):
            if l.startswith("--- /dev/null") and k + 1 < len(lines) and lines[k + 1].startswith("+++ b/"):
                f = os.path.join("/repo", lines[k + 1][6:])
                if os.path.isfile(f): os.remove(f)
        sh(f"rm -rf {VERIF}/replays/*", cwd=VERIF)
    mp = os.path.join(d, "meta.json")
    meta = json.load(open(mp))
    meta.setdefault("runs", []).append({"checks": res})
    meta["caught_by"] = sorted(set(meta.get("caught_by", [])) | {c for c, r in res.items() if r["exit"] == 1})
    meta["missed_by"] = sorted((set(meta.get("missed_by", [])) | {c for c, r in res.items() if r["exit"] != 1}) - set(meta["caught_by"]))
    json.dump(meta, open(mp, "w"), indent=1, ensure_ascii=False)
    print(name, "caught_by", meta["caught_by"])

def summary():
    import glob
    head = open(os.path.join(VERIF, "seeded", "SUMMARY.md")).read().split("| seeded change |")[0]
    rows = []
    for mp in sorted(glob.glob(os.path.join(VERIF, "seeded", "*", "meta.json"))):
        m = json.load(open(mp))
        rows.append("| %s | %s | %s | %s | %s |" % (m["name"], m["breaks_property"], str(m.get("needs", "")).replace("|", "/"),
                    ",".join(m.get("caught_by", [])), ",".join(m.get("missed_by", []))))
    open(os.path.join(VERIF, "seeded", "SUMMARY.md"), "w").write(
        head + "| seeded change | property | needs | caught by (quick tier) | run but not caught |\n|---|---|---|---|---|\n" + "\n".join(rows) + "\n")
    print(len(rows), "rows")

if __name__ == "__main__":
    if sys.argv[1] == "summary":
        summary()
    elif sys.argv[1] == "verify":
        ok = verify(sys.argv[2], sys.argv[3], sys.argv[4])
        sys.exit(0 if ok else 1)
    elif sys.argv[1] == "run":
        run(sys.argv[2], sys.argv[3:] or ALL)
