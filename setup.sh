#!/bin/bash
# Build the framework offline from files on disk only.
set -eu
ROOT="$(cd "$(dirname "$0")" && pwd)"
export CARGO_NET_OFFLINE=true
mkdir -p "$ROOT/target" "$ROOT/evidence" "$ROOT/replays"
cd "$ROOT/harness" && cargo build --release --offline
echo "setup ok"
