#!/bin/bash
# Build the framework offline from files on disk only.
set -eu
ROOT="$(cd "$(dirname "$0")" && pwd)"
export CARGO_NET_OFFLINE=true
mkdir -p "$ROOT/target" "$ROOT/evidence" "$ROOT/replays"
cd "$ROOT/harness" && cargo build --release --offline
# CLI under test (C12); ./check C12 rebuilds it from the working tree on every run
(cd /repo && cargo build --release --offline --bin xml_schema_generator --target-dir "$ROOT/target/cli")
# rlibs the generated programs of C02/C13 are compiled against
(cd "$ROOT/progdeps" && cargo build --offline)
echo "setup ok"
